"""./check driver: shard cases over subprocesses, merge records, classify violations against the
committed known-findings file, write evidence + replay files, print the interface lines.

exit 0  property held on everything explored (KNOWN-FINDING lines allowed)
exit 1  at least one violation not listed as an open known finding (VIOLATION lines printed)
exit 2  inconclusive / harness broken (no VIOLATION line): a deciding monitor saw nothing,
        a harness error occurred, or too many cases were cut by the watchdog
"""
import argparse
import importlib
import json
import os
import subprocess
import sys
import tempfile
import time
import shutil

from mon import known

VERIF = os.path.dirname(os.path.dirname(os.path.abspath(__file__)))
REPO = os.environ.get("VERIF_REPO") or "/repo"
PY = sys.executable


def _env(hashseed="0"):
    env = dict(os.environ)
    env["PYTHONPATH"] = REPO + ":" + VERIF
    env["PYTHONDONTWRITEBYTECODE"] = "1"
    env["PYTHONHASHSEED"] = str(hashseed)
    env["MSDM_VERIF"] = "1"
    for k in ("OMP_NUM_THREADS", "OPENBLAS_NUM_THREADS", "MKL_NUM_THREADS"):
        env[k] = "1"
    return env


def run_shards(prop, tier, seed, ncases, jobs, shard_timeout, tmp, mod):
    """Fork one child per shard *after* importing msdm once in the parent (16 concurrent torch
    imports cost more than the whole quick tier). Children are plain os.fork() processes that
    os._exit(); the parent polls waitpid under a deadline and kills stragglers, so a dead or
    hung child can never hang the run."""
    import signal
    import warnings
    from mon import worker
    warnings.simplefilter("ignore")
    import numpy as np
    np.seterr(all="ignore")
    # import the code under test once, before forking (always from /repo's working tree)
    import msdm.algorithms  # noqa: F401
    import msdm.domains  # noqa: F401
    for name in getattr(mod, "PRELOAD", []):
        importlib.import_module(name)
    if hasattr(mod, "worker_init"):
        mod.worker_init(tier)
    nshards = max(1, min(jobs, ncases))
    kids = {}
    sys.stdout.flush()
    sys.stderr.flush()
    for sh in range(nshards):
        out = os.path.join(tmp, f"shard{sh}.jsonl")
        errp = os.path.join(tmp, f"shard{sh}.err")
        pid = os.fork()
        if pid == 0:
            code = 1
            try:
                fd = os.open(errp, os.O_WRONLY | os.O_CREAT | os.O_TRUNC)
                os.dup2(fd, 1)
                os.dup2(fd, 2)
                with open(out, "w") as f:
                    for i in range(sh, ncases, nshards):
                        rec = worker.run_one(mod, prop, tier, seed, i)
                        f.write(json.dumps(rec) + "\n")
                        f.flush()
                code = 0
            except BaseException:
                import traceback
                traceback.print_exc()
            finally:
                sys.stdout.flush()
                sys.stderr.flush()
                os._exit(code)
        kids[pid] = (sh, out, errp)
    deadline = time.time() + shard_timeout
    status = {}
    while kids and time.time() < deadline:
        try:
            pid, st = os.waitpid(-1, os.WNOHANG)
        except ChildProcessError:
            break
        if pid == 0:
            time.sleep(0.05)
            continue
        if pid in kids:
            status[pid] = (kids.pop(pid), os.waitstatus_to_exitcode(st))
    for pid, info in list(kids.items()):
        try:
            os.kill(pid, signal.SIGKILL)
            os.waitpid(pid, 0)
        except Exception:
            pass
        status[pid] = (info, "timeout")
    records, problems = {}, []
    for pid, ((sh, out, errp), rc) in status.items():
        if os.path.exists(out):
            with open(out) as f:
                for line in f:
                    try:
                        r = json.loads(line)
                    except Exception:
                        continue
                    records[r["index"]] = r
        if rc != 0:
            tail = open(errp).read()[-1500:] if os.path.exists(errp) else ""
            problems.append({"shard": sh, "rc": rc, "stderr_tail": tail})
    for i in range(ncases):
        if i not in records:
            records[i] = {"prop": prop, "index": i, "case_seed": f"{prop}:{seed}:{i}", "family": "?",
                          "params": {}, "sig": "", "nontrivial": False, "events": {},
                          "verdict": "inconclusive", "reason": "shard-timeout-or-crash",
                          "violations": [], "sample": None, "notes": []}
    return [records[i] for i in sorted(records)], problems


def aggregate(prop, tier, seed, mod, records, problems, wall, extra_cov=None):
    entries = known.load()
    events, verdicts, reasons, families = {}, {}, {}, {}
    sigs = set()
    unknown, knownhits = [], {}
    for r in records:
        verdicts[r["verdict"]] = verdicts.get(r["verdict"], 0) + 1
        families[r["family"]] = families.get(r["family"], 0) + 1
        if r["verdict"] in ("inconclusive", "precondition", "harness-error"):
            key = f'{r["verdict"]}:{(r.get("reason") or "")[:60]}'
            reasons[key] = reasons.get(key, 0) + 1
        for k, v in r["events"].items():
            events[k] = events.get(k, 0) + v
        if r["nontrivial"] and r["verdict"] in ("held", "violated"):
            sigs.add(r["sig"])
        if r["violations"]:
            unk = []
            for v in r["violations"]:
                mech = known.classify(prop, v, r, entries)
                if mech:
                    knownhits.setdefault(mech, []).append((r, v))
                else:
                    unk.append(v)
            if unk:
                unknown.append((r, unk))
    samples = [r["sample"] for r in records if r.get("sample")][:4]
    if not samples:
        samples = [{"family": r["family"], "params": r["params"]} for r in records[:3]]
    required = getattr(mod, "REQUIRED", [])
    missing = [k for k in required if events.get(k, 0) == 0]
    cov = {
        "evaluations": len(records),
        "distinct_nontrivial": len(sigs),
        "rule": getattr(mod, "RULE", ""),
        "samples": samples,
        "events": events,
        "verdicts": verdicts,
        "families": families,
        "not_judged_by_reason": reasons,
        "known_findings_observed": {m: len(v) for m, v in knownhits.items()},
        "unlisted_violating_cases": len(unknown),
        "required_monitor_counters": {k: events.get(k, 0) for k in required},
        "exhaustive": False,
    }
    if extra_cov:
        cov.update(extra_cov)
    ev = {
        "property_id": prop, "tier": tier, "seed": seed, "level": "exploration",
        "coverage": cov,
        "assumptions": getattr(mod, "ASSUMPTIONS", []),
        "wall_s": round(wall, 2),
        "violations": len(unknown),
    }
    os.makedirs(os.path.join(VERIF, "evidence"), exist_ok=True)
    with open(os.path.join(VERIF, "evidence", f"{prop}.json"), "w") as f:
        json.dump(ev, f, indent=1, sort_keys=True)
        f.write("\n")

    # ---- report ------------------------------------------------------------------
    print(f"[{prop}] tier={tier} seed={seed} cases={len(records)} verdicts={verdicts} "
          f"distinct_nontrivial={len(sigs)} wall={wall:.1f}s")
    print(f"[{prop}] monitor events: " + ", ".join(f"{k}={v}" for k, v in sorted(events.items())))
    if reasons:
        print(f"[{prop}] not judged: {reasons}")
    for mech, hits in sorted(knownhits.items()):
        r, v = hits[0]
        print(f"KNOWN-FINDING: property={prop} {mech}: {known.describe(mech, entries)} "
              f"[observed in {len(hits)} case(s), e.g. case {r['index']}: {v['detail'][:160]}]")
    # every OPEN finding listed for this property gets its line, also when this run's workload did not meet it (some are rare
    # enough to show only in the thorough tier)
    for e in entries:
        if e.get("property") == prop and e.get("status") == "open" and e.get("mechanism") not in knownhits:
            print(f"KNOWN-FINDING: property={prop} {e['mechanism']}: {str(e.get('description', ''))[:200]} [listed; not met by this run's workload]")
    rc = 0
    if unknown:
        rdir = os.path.join(VERIF, "replays", prop)
        os.makedirs(rdir, exist_ok=True)
        for r, unk in unknown[:40]:
            path = os.path.join(rdir, f"{tier}-s{seed}-i{r['index']}.json")
            with open(path, "w") as f:
                json.dump({"property": prop, "tier": tier, "seed": seed, "index": r["index"],
                           "record": dict(r, violations=unk)}, f, indent=1)
            print(f"VIOLATION property={prop} replay={path}")
            print(f"    {r['family']} {json.dumps(r['params'])[:200]}")
            for v in unk[:3]:
                print(f"    - {v['clause']}: {v['detail'][:300]}")
        if len(unknown) > 40:
            print(f"[{prop}] ... and {len(unknown) - 40} more violating cases")
        rc = 1
    harness = verdicts.get("harness-error", 0)
    if harness:
        for r in records:
            if r["verdict"] == "harness-error":
                print(f"[{prop}] HARNESS ERROR in case {r['index']}: {r['reason']}\n" + "\n".join(r["notes"]))
                break
    if problems:
        for pr in problems[:3]:
            print(f"[{prop}] shard {pr['shard']} rc={pr['rc']}: {pr['stderr_tail'][-600:]}")
    too_many = {k: events.get(k, 0) for k, frac in getattr(mod, "MAX_EVENT_FRACTION", {}).items()
                if events.get(k, 0) > frac * len(records)}
    if rc == 0 and too_many:
        print(f"[{prop}] INCONCLUSIVE: not-judged outcomes above their allowed share: {too_many}")
        rc = 2
    if rc == 0:
        judged = verdicts.get("held", 0) + verdicts.get("violated", 0)
        cut = sum(v for k, v in reasons.items() if k.startswith("inconclusive:watchdog")
                  or k.startswith("inconclusive:shard-timeout"))
        if harness or missing or judged == 0 or cut > 0.2 * len(records) or len(sigs) < 2:
            print(f"[{prop}] INCONCLUSIVE: harness_errors={harness} monitors_with_zero_events={missing} "
                  f"judged={judged} cut_by_watchdog={cut}")
            rc = 2
    if rc == 0:
        print(f"[{prop}] held on {verdicts.get('held', 0) + verdicts.get('violated', 0)} judged executions")
    return rc


def replay(prop, path):
    import warnings
    warnings.simplefilter("ignore")
    import numpy as np
    np.seterr(all="ignore")
    from mon.worker import run_one
    with open(path) as f:
        rp = json.load(f)
    mod = importlib.import_module(f"mon.checks.{prop.lower()}")
    if hasattr(mod, "worker_init"):
        mod.worker_init(rp["tier"])
    if rp.get("index", -1) < 0:
        print("replay file describes a parent-phase finding; rerun the tier to reproduce")
        print(json.dumps(rp["record"], indent=1)[:4000])
        return 1
    rec = run_one(mod, prop, rp["tier"], rp["seed"], rp["index"], verbose=True)
    print(json.dumps(rec, indent=1))
    entries = known.load()
    unk = [v for v in rec["violations"] if not known.classify(prop, v, rec, entries)]
    if unk:
        print(f"VIOLATION property={prop} replay={path}")
        return 1
    return 0 if rec["verdict"] in ("held", "violated") else 2


def main():
    ap = argparse.ArgumentParser()
    ap.add_argument("prop")
    ap.add_argument("--tier", default=os.environ.get("VERIF_TIER") or "quick")
    ap.add_argument("--replay")
    ap.add_argument("--jobs", type=int, default=int(os.environ.get("VERIF_JOBS", "16")))
    ap.add_argument("--cases", type=int, default=None, help="override case count (debugging)")
    a = ap.parse_args()
    prop = a.prop.upper()
    if a.replay:
        sys.exit(replay(prop, a.replay))
    tier = a.tier if a.tier in ("quick", "thorough") else "quick"
    try:
        seed = int(os.environ.get("VERIF_SEED", "0") or 0)
    except ValueError:
        seed = 0
    mod = importlib.import_module(f"mon.checks.{prop.lower()}")
    ncases = a.cases or mod.CASES[tier]
    shard_timeout = getattr(mod, "SHARD_TIMEOUT", {"quick": 600, "thorough": 7200})[tier]
    t0 = time.time()
    tmp = tempfile.mkdtemp(prefix=f"verif-{prop}-", dir=os.environ.get("VERIF_TMP") or None)
    try:
        records, problems = run_shards(prop, tier, seed, ncases, a.jobs, shard_timeout, tmp, mod)
        extra_cov = None
        if hasattr(mod, "parent_phase"):
            more, extra_cov = mod.parent_phase(tier, seed, a.jobs, tmp, _env)
            records.extend(more)
        rc = aggregate(prop, tier, seed, mod, records, problems, time.time() - t0, extra_cov)
    finally:
        shutil.rmtree(tmp, ignore_errors=True)
    sys.exit(rc)


if __name__ == "__main__":
    main()
