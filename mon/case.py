"""Case record: what one monitored execution observed and what the oracle decided."""
import traceback
import hashlib
import json


class CaseTimeout(BaseException):
    """Raised by the per-case watchdog (SIGALRM). BaseException so msdm's own
    `except Exception` blocks cannot swallow it."""


class Inconclusive(Exception):
    def __init__(self, reason):
        super().__init__(reason)
        self.reason = reason


class Precondition(Exception):
    """The generated input trips a documented precondition of the algorithm."""
    def __init__(self, reason):
        super().__init__(reason)
        self.reason = reason


_MSDM_FAIL = object()


def jsonable(x, depth=0):
    """Best-effort conversion to something json.dumps accepts (for witnesses)."""
    import numpy as np
    from fractions import Fraction
    if depth > 8:
        return repr(x)
    if x is None or isinstance(x, (bool, int, str)):
        return x
    if isinstance(x, float):
        if x != x or x in (float("inf"), float("-inf")):
            return repr(x)
        return x
    if isinstance(x, Fraction):
        return str(x)
    if isinstance(x, (np.integer,)):
        return int(x)
    if isinstance(x, (np.floating,)):
        return jsonable(float(x))
    if isinstance(x, (np.bool_,)):
        return bool(x)
    if isinstance(x, np.ndarray):
        return jsonable(x.tolist(), depth + 1)
    if isinstance(x, dict):
        return {(k if isinstance(k, str) else repr(k)): jsonable(v, depth + 1) for k, v in x.items()}
    if isinstance(x, (list, tuple)):
        return [jsonable(v, depth + 1) for v in x]
    if isinstance(x, (set, frozenset)):
        return sorted((jsonable(v, depth + 1) for v in x), key=repr)
    return repr(x)


class Case:
    FAIL = _MSDM_FAIL

    def __init__(self, prop, index, case_seed, tier):
        self.prop = prop
        self.index = index
        self.case_seed = case_seed
        self.tier = tier
        self.family = "?"
        self.params = {}
        self.sig_parts = []
        self.nontrivial = False
        self.events = {}
        self.violations = []
        self.verdict = None
        self.reason = None
        self.sample = None
        self.notes = []

    # -- bookkeeping -------------------------------------------------------------------
    def count(self, name, n=1):
        self.events[name] = self.events.get(name, 0) + int(n)

    def sig(self, *parts):
        self.sig_parts.extend(parts)

    def fail(self, clause, detail="", **facts):
        if len(self.violations) < 25:
            self.violations.append({
                "clause": clause,
                "detail": detail if isinstance(detail, str) else json.dumps(jsonable(detail)),
                "facts": jsonable(facts),
            })
        else:
            self.count("violations_truncated")

    def check(self, cond, clause, detail="", **facts):
        self.count("oracle_comparisons")
        if not cond:
            self.fail(clause, detail() if callable(detail) else detail, **facts)
        return bool(cond)

    def call(self, label, fn, *args, expect=(), facts=None, **kwargs):
        """Call into msdm. An exception escaping msdm on an in-domain input is a violation
        (clause 'exception:<label>'); returns Case.FAIL in that case."""
        self.count("msdm_calls")
        try:
            return fn(*args, **kwargs)
        except (CaseTimeout, Inconclusive, Precondition):
            raise
        except expect:
            raise
        except BaseException as e:  # DomainError is a BaseException subclass in msdm
            if isinstance(e, (KeyboardInterrupt, SystemExit, MemoryError)):
                raise
            tb = traceback.extract_tb(e.__traceback__)
            where = [f"msdm/{fr.filename.split('/msdm/', 1)[-1]}:{fr.lineno}:{fr.name}" for fr in tb
                     if "/msdm/" in fr.filename and "/site-packages/" not in fr.filename][-3:]
            f = dict(exc_type=type(e).__name__, exc_msg=str(e)[:300], where=where)
            if facts:
                f.update(facts() if callable(facts) else facts)
            self.fail(f"exception:{label}", f"{type(e).__name__}: {str(e)[:300]} at {where}", **f)
            return _MSDM_FAIL

    # -- result ------------------------------------------------------------------------
    def record(self):
        if self.verdict is None:
            self.verdict = "violated" if self.violations else "held"
        sig = hashlib.sha1(repr(tuple(self.sig_parts)).encode()).hexdigest()[:16]
        return {
            "prop": self.prop, "index": self.index, "case_seed": self.case_seed,
            "family": self.family, "params": jsonable(self.params), "sig": sig,
            "nontrivial": bool(self.nontrivial), "events": self.events,
            "verdict": self.verdict, "reason": self.reason,
            "violations": self.violations, "sample": jsonable(self.sample),
            "notes": self.notes[:10],
        }
