"""Reference finite-state-controller arithmetic (numpy): exact value on the (node, state) cross product
with absorbing states terminal, and the hidden-node forward algorithm for history probabilities."""
import numpy as np


def eval_fsc(M, psi, eta, absorb=True):
    """V[n,s]: expected discounted return of running the controller from node n in state s; an episode
    ends on entering an absorbing state (absorb=True) or never (absorb=False: the raw dynamics)."""
    T = M.T if absorb else M.arr.T
    R = M.R if absorb else M.arr.ER
    nN, nS = psi.shape[0], T.shape[0]
    # P[(n,s),(m,t)] = sum_a psi[n,a] T[s,a,t] sum_o O[a,t,o] eta[n,a,o,m]
    P = np.einsum("na,sat,ato,naom->nsmt", psi, T, M.O, eta).reshape(nN * nS, nN * nS)
    r = (psi @ R.T).reshape(nN * nS)
    V = np.linalg.solve(np.eye(nN * nS) - M.gamma * P, r)
    return V.reshape(nN, nS)


def node_posterior(init, psi, eta, history, A_index, O_index):
    """forward algorithm: posterior over nodes after a history [(a,o),...]; returns (alpha, prob of the
    action choices so far under the controller's definition)"""
    alpha = np.array(init, dtype=float)
    pacts = 1.0
    for a, o in history:
        ai, oi = A_index[a], O_index[o]
        pa = float(alpha @ psi[:, ai])
        pacts *= pa
        if pa <= 0:
            return None, 0.0
        w = alpha * psi[:, ai]
        alpha = (w / w.sum()) @ eta[:, ai, oi, :]
    return alpha, pacts
