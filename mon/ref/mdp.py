"""Reference MDP arithmetic on a Spec (numpy only, no msdm). Textbook definitions:
absorbing states are worth 0 and are terminal; everything else is the Bellman equations."""
import numpy as np


class Arr:
    """Dense arrays of a Spec over an explicit state order / action order."""
    def __init__(self, sp, states=None, actions=None):
        self.sp = sp
        self.S = list(states if states is not None else sp.states)
        self.A = list(actions if actions is not None else sp.action_universe())
        self.si = {s: i for i, s in enumerate(self.S)}
        self.ai = {a: i for i, a in enumerate(self.A)}
        nS, nA = len(self.S), len(self.A)
        self.T = np.zeros((nS, nA, nS))
        self.R = np.zeros((nS, nA, nS))
        self.avail = np.zeros((nS, nA), dtype=bool)
        for s in self.S:
            i = self.si[s]
            for a in sp.acts[s]:
                j = self.ai[a]
                self.avail[i, j] = True
                for t, q in sp.P[(s, a)]:
                    if q > 0:
                        k = self.si[t]
                        self.T[i, j, k] += q
                        self.R[i, j, k] = sp.reward(s, a, t)
        self.flag = np.array([s in sp.flag for s in self.S], dtype=bool)
        # implicit absorbing: has actions, every available action self-loops w.p.1 with reward 0
        imp = np.zeros(nS, dtype=bool)
        for i in range(nS):
            if self.avail[i].any():
                ok = True
                for j in range(nA):
                    if self.avail[i, j]:
                        if not (self.T[i, j, i] == 1.0 and (self.R[i, j] == 0).all()):
                            ok = False
                imp[i] = ok
        self.implicit = imp
        self.absorbing = self.flag | imp
        self.gamma = sp.gamma
        self.init = np.zeros(nS)
        for s, p in sp.init:
            if p > 0:
                self.init[self.si[s]] += p
        self.ER = np.einsum("san,san->sa", self.T, self.R)

    def can_reach_absorbing(self):
        """bool[s]: some policy reaches an absorbing state from s with positive probability
        (absorbing states themselves included). Absorbing states are not expanded."""
        nS = len(self.S)
        adj = (self.T > 0).any(axis=1)
        can = self.absorbing.copy()
        changed = True
        while changed:
            changed = False
            for i in range(nS):
                if not can[i] and (adj[i] & can).any():
                    can[i] = True
                    changed = True
        return can


def _masked(arr, pinned):
    T = arr.T.copy()
    ER = arr.ER.copy()
    T[pinned] = 0
    ER[pinned] = 0
    return T, ER


def q_from_v(T, ER, gamma, v, avail):
    q = ER + gamma * np.einsum("san,n->sa", T, v)
    q = np.where(avail, q, -np.inf)
    return q


def evaluate_policy_matrix(arr, pi, pinned, gamma=None):
    """Exact evaluation of a policy matrix with `pinned` states terminal and worth 0.
    gamma<1: linear solve. gamma==1: SCC analysis (closed classes of the policy chain among
    non-pinned states): value -inf if a closed class with negative reward is reachable, +inf if a
    closed class with positive reward is reachable (and no negative one), else transient solve.
    Returns dict(V, Q, steps, closed) ; steps = expected number of steps until termination
    (inf if a closed class is reachable)."""
    gamma = arr.gamma if gamma is None else gamma
    T, ER = _masked(arr, pinned)
    nS = len(arr.S)
    P = np.einsum("san,sa->sn", T, pi)
    r = np.einsum("sa,sa->s", ER, pi)
    if gamma < 1:
        M = np.eye(nS) - gamma * P
        V = np.linalg.solve(M, r)
        Q = q_from_v(T, ER, gamma, V, arr.avail)
        return {"V": V, "Q": Q, "P": P, "r": r, "M": M}
    # undiscounted
    comp = tarjan(P > 0)
    ncomp = max(comp) + 1 if nS else 0
    closed_comp = []
    for c in range(ncomp):
        members = [i for i in range(nS) if comp[i] == c]
        if any(pinned[i] for i in members):
            continue
        # closed iff no member has a positive-probability successor outside (structural: an exit probability of 2^-50
        # is an exit)
        outside = np.ones(nS, dtype=bool)
        outside[members] = False
        inside = not bool((P[members][:, outside] > 0).any())
        if inside:
            closed_comp.append(members)
    recurrent = np.zeros(nS, dtype=bool)
    neg = np.zeros(nS, dtype=bool)
    pos = np.zeros(nS, dtype=bool)
    for members in closed_comp:
        recurrent[members] = True
        if any(r[i] < 0 for i in members):
            neg[members] = True
        if any(r[i] > 0 for i in members):
            pos[members] = True
    reach = reachability(P > 0)
    reach_neg = (reach[:, neg]).any(axis=1) if neg.any() else np.zeros(nS, dtype=bool)
    reach_pos = (reach[:, pos]).any(axis=1) if pos.any() else np.zeros(nS, dtype=bool)
    reach_rec = (reach[:, recurrent]).any(axis=1) if recurrent.any() else np.zeros(nS, dtype=bool)
    Pt = P.copy()
    Pt[recurrent] = 0
    rt = r.copy()
    rt[recurrent] = 0
    M = np.eye(nS) - Pt
    V = np.linalg.solve(M, rt)
    steps = np.linalg.solve(M, np.where(pinned | recurrent, 0.0, 1.0))
    steps = np.where(reach_rec, np.inf, steps)
    V = np.where(reach_neg, -np.inf, np.where(reach_pos, np.inf, V))
    with np.errstate(invalid="ignore"):
        fut = T * V[None, None, :]
        fut[np.isnan(fut)] = 0
        Q = ER + fut.sum(-1)
    Q = np.where(arr.avail, Q, -np.inf)
    return {"V": V, "Q": Q, "P": P, "r": r, "M": M, "recurrent": recurrent, "steps": steps,
            "reach_rec": reach_rec, "reach_neg": reach_neg}


def expected_steps(arr, pi, pinned, return_parts=False):
    """Expected number of steps until a pinned state under pi (inf when a closed class is
    reachable)."""
    T, _ = _masked(arr, pinned)
    nS = len(arr.S)
    P = np.einsum("san,sa->sn", T, pi)
    reach = reachability(P > 0)
    # states from which pinned is reached w.p.1  <=> no closed non-pinned class reachable
    comp = tarjan(P > 0)
    ncomp = max(comp) + 1 if nS else 0
    recurrent = np.zeros(nS, dtype=bool)
    for c in range(ncomp):
        members = [i for i in range(nS) if comp[i] == c]
        if any(pinned[i] for i in members):
            continue
        outside = np.ones(nS, dtype=bool)
        outside[members] = False
        if not bool((P[members][:, outside] > 0).any()):
            recurrent[members] = True
    reach_rec = reach[:, recurrent].any(axis=1) if recurrent.any() else np.zeros(nS, dtype=bool)
    Pt = P.copy()
    Pt[recurrent] = 0
    steps = np.linalg.solve(np.eye(nS) - Pt, np.where(pinned | recurrent, 0.0, 1.0))
    if return_parts:
        return steps, reach_rec, recurrent
    return np.where(reach_rec, np.inf, steps)


def occupancy(arr, pi, pinned, gamma=None):
    """Discounted state occupancy row vector init @ (I - gamma P)^-1 ; for gamma==1,
    inf at recurrent states accessible from the initial support."""
    gamma = arr.gamma if gamma is None else gamma
    T, _ = _masked(arr, pinned)
    nS = len(arr.S)
    P = np.einsum("san,sa->sn", T, pi)
    if gamma < 1:
        return np.linalg.solve((np.eye(nS) - gamma * P).T, arr.init)
    ev = evaluate_policy_matrix(arr, pi, pinned, 1.0)
    rec = ev["recurrent"]
    Pt = P.copy()
    Pt[rec] = 0
    occ = np.linalg.solve((np.eye(nS) - Pt).T, arr.init)
    reach = reachability(P > 0)
    acc = reach[arr.init > 0].any(axis=0) if (arr.init > 0).any() else np.zeros(nS, dtype=bool)
    occ = np.where(acc & rec, np.inf, occ)
    return occ


def tarjan(adj):
    """Strongly connected components of a boolean adjacency matrix; returns component id per node
    (iterative Tarjan)."""
    n = adj.shape[0]
    index = [None] * n
    low = [0] * n
    onstack = [False] * n
    comp = [-1] * n
    stack = []
    counter = [0]
    ncomp = [0]
    nbrs = [list(np.nonzero(adj[i])[0]) for i in range(n)]
    for root in range(n):
        if index[root] is not None:
            continue
        work = [(root, 0)]
        while work:
            v, pi = work[-1]
            if pi == 0:
                index[v] = low[v] = counter[0]
                counter[0] += 1
                stack.append(v)
                onstack[v] = True
            recurse = False
            for k in range(pi, len(nbrs[v])):
                w = nbrs[v][k]
                if index[w] is None:
                    work[-1] = (v, k + 1)
                    work.append((w, 0))
                    recurse = True
                    break
                elif onstack[w]:
                    low[v] = min(low[v], index[w])
            if recurse:
                continue
            if low[v] == index[v]:
                while True:
                    w = stack.pop()
                    onstack[w] = False
                    comp[w] = ncomp[0]
                    if w == v:
                        break
                ncomp[0] += 1
            work.pop()
            if work:
                u = work[-1][0]
                low[u] = min(low[u], low[v])
    return comp


def reachability(adj):
    """reach[i,j]: j reachable from i in >=0 steps."""
    n = adj.shape[0]
    reach = np.eye(n, dtype=bool) | adj
    for k in range(n):
        reach = reach | (reach[:, k:k + 1] & reach[k:k + 1, :])
    return reach


class Solution:
    pass


def solve(arr, gamma=None, pinned=None, tol=1e-13, max_iter=200000):
    """Optimal values with `pinned` states terminal and worth 0. Certified bracket:
    upper from value iteration (residual bound for gamma<1; monotone from 0 for non-positive
    rewards at gamma=1), lower from exact evaluation of a greedy policy.
    Returns Solution(V, Q, err, pi_greedy, ok)."""
    gamma = arr.gamma if gamma is None else gamma
    if pinned is None:
        pinned = arr.absorbing.copy()
        if gamma == 1.0:
            pinned = pinned | ~arr.can_reach_absorbing()
    T, ER = _masked(arr, pinned)
    nS, nA = arr.avail.shape
    avail = arr.avail
    V = np.zeros(nS)
    it = 0
    stable = 0
    while it < max_iter:
        Q = q_from_v(T, ER, gamma, V, avail)
        Vn = Q.max(axis=1)
        Vn[pinned] = 0.0
        d = np.abs(Vn - V).max() if nS else 0.0
        V = Vn
        it += 1
        if d <= tol * max(1.0, np.abs(V).max()):
            stable += 1
            if stable >= 3:
                break
        else:
            stable = 0
    Q = q_from_v(T, ER, gamma, V, avail)
    scale = max(1.0, np.abs(V).max())
    # greedy policy (first maximiser) evaluated exactly
    pi = np.zeros((nS, nA))
    for i in range(nS):
        j = int(np.argmax(Q[i]))
        pi[i, j] = 1.0
    sol = Solution()
    sol.iterations = it
    sol.pinned = pinned
    try:
        ev = evaluate_policy_matrix(arr, pi, pinned, gamma)
        Vpi = ev["V"]
        gap = np.abs(np.where(np.isfinite(Vpi), Vpi - V, np.inf)).max() if nS else 0.0
    except np.linalg.LinAlgError:
        gap = np.inf
        Vpi = V
    if gamma < 1:
        resid = np.abs(np.where(pinned, 0.0, q_from_v(T, ER, gamma, V, avail).max(axis=1)) - V).max() if nS else 0.0
        err = min(gap, resid / (1 - gamma)) if np.isfinite(gap) else resid / (1 - gamma)
        # both bounds are sound individually for gamma<1
        err = resid / (1 - gamma)
    else:
        err = gap
    sol.V, sol.Q, sol.err, sol.pi, sol.scale = V, Q, float(err), pi, scale
    sol.converged = stable >= 3
    sol.ok = bool(sol.converged and err <= 1e-9 * scale)
    sol.T, sol.ER = T, ER
    return sol
