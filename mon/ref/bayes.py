"""Reference Bayes filter / belief-MDP one-step model on a POMDP spec (plain dictionaries)."""
import math
from mon.gen.pomdp import obs_prob


def predict_state(sp, b, a):
    out = {}
    for s, bs in b.items():
        if bs == 0:
            continue
        for ns, p in sp.succ(s, a).items():
            out[ns] = out.get(ns, 0.0) + bs * p
    return out


def joint_next_obs(sp, b, a, o):
    pred = predict_state(sp, b, a)
    return {ns: p * obs_prob(sp, a, ns, o) for ns, p in pred.items()}


def posterior(sp, b, a, o):
    j = joint_next_obs(sp, b, a, o)
    tot = math.fsum(j.values())
    if tot == 0:
        return {}, 0.0
    return {ns: p / tot for ns, p in j.items() if p > 0}, tot


def predictive_obs(sp, b, a, observations):
    pred = predict_state(sp, b, a)
    return {o: math.fsum(p * obs_prob(sp, a, ns, o) for ns, p in pred.items()) for o in observations}


def expected_reward(sp, b, a):
    return math.fsum(bs * p * sp.reward(s, a, ns) for s, bs in b.items() if bs > 0
                     for ns, p in sp.succ(s, a).items())
