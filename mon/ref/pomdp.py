"""Reference POMDP arithmetic on a spec (numpy): masked model (absorbing states are terminal and worth
0), exact depth-limited expectimax bracket [L,U] of V*(b) on unnormalised belief vectors (V* is
positively homogeneous), fully observable MDP solution, blind-policy values."""
import numpy as np
from mon.gen.pomdp import obs_prob
from mon.ref import mdp as Rf


class PModel:
    def __init__(self, sp, S, A, OL):
        self.sp, self.S, self.A, self.OL = sp, list(S), list(A), list(OL)
        self.arr = Rf.Arr(sp, states=self.S, actions=self.A)
        self.gamma = sp.gamma
        self.absorbing = self.arr.absorbing.copy()
        self.T = self.arr.T.copy()
        self.R = self.arr.ER.copy()
        self.T[self.absorbing] = 0
        self.R[self.absorbing] = 0
        nA, nS, nO = len(self.A), len(self.S), len(self.OL)
        self.O = np.zeros((nA, nS, nO))
        for i, a in enumerate(self.A):
            for j, ns in enumerate(self.S):
                for k, o in enumerate(self.OL):
                    self.O[i, j, k] = obs_prob(sp, a, ns, o)
        sol = Rf.solve(self.arr, self.gamma, self.absorbing)
        self.mdp_ok = sol.ok
        self.Vmdp = sol.V
        self.Qmdp = np.where(self.absorbing[:, None], 0.0, sol.Q)
        # blind policies: always action a
        self.Vblind = []
        for i in range(nA):
            P = self.T[:, i, :]
            self.Vblind.append(np.linalg.solve(np.eye(nS) - self.gamma * P, self.R[:, i]))
        self.Vblind = np.array(self.Vblind)

    def succ(self, b, ai):
        """unnormalised successor beliefs per observation: list of (vector, mass)"""
        pred = b @ self.T[:, ai, :]
        out = []
        for k in range(len(self.OL)):
            v = pred * self.O[ai, :, k]
            m = v.sum()
            if m > 0:
                out.append((v, m))
        return out

    def bracket(self, b, depth):
        """(L, U) with L <= V*(b) <= U for an unnormalised belief vector b"""
        if depth == 0 or b.sum() <= 0:
            return float((self.Vblind @ b).max()), float(self.Vmdp @ b)
        bestL, bestU = -np.inf, -np.inf
        for ai in range(len(self.A)):
            l = u = float(b @ self.R[:, ai])
            for v, m in self.succ(b, ai):
                cl, cu = self.bracket(v, depth - 1)
                l += self.gamma * cl
                u += self.gamma * cu
            bestL, bestU = max(bestL, l), max(bestU, u)
        return bestL, bestU

    def backup(self, b, alphas):
        """one exact point-based backup value at b given a set of alpha vectors"""
        best = -np.inf
        for ai in range(len(self.A)):
            val = float(b @ self.R[:, ai])
            for v, m in self.succ(b, ai):
                val += self.gamma * float((alphas @ v).max())
            best = max(best, val)
        return best
