"""Reference average-reward quantities: optimal multichain gain by Puterman's LP (sec. 9.3) and the
gain of a stationary (possibly stochastic) policy from closed classes + absorption probabilities."""
import numpy as np
from scipy.optimize import linprog
from mon.ref.mdp import tarjan


def pinned_model(arr, pinned):
    """absorbing (pinned) states become zero-reward self-loops under every available action"""
    T = arr.T.copy()
    ER = arr.ER.copy()
    for i in np.nonzero(pinned)[0]:
        T[i] = 0
        T[i, :, i] = 1.0
        ER[i] = 0
    return T, ER


def optimal_gain_lp(arr, pinned):
    T, ER = pinned_model(arr, pinned)
    nS, nA = arr.avail.shape
    # variables: g (nS), h (nS);  minimise sum g
    A_ub, b_ub = [], []
    for s in range(nS):
        for a in range(nA):
            if not arr.avail[s, a]:
                continue
            row = np.zeros(2 * nS)
            row[:nS] = T[s, a]
            row[s] -= 1.0                       # sum p g_j - g_s <= 0
            A_ub.append(row)
            b_ub.append(0.0)
            row = np.zeros(2 * nS)
            row[s] = -1.0                       # -g_s - h_s + sum p h_j <= -r
            row[nS:] = T[s, a]
            row[nS + s] -= 1.0
            A_ub.append(row)
            b_ub.append(-ER[s, a])
    c = np.concatenate([np.ones(nS), np.zeros(nS)])
    res = linprog(c, A_ub=np.array(A_ub), b_ub=np.array(b_ub), bounds=[(None, None)] * (2 * nS), method="highs")
    if res.status != 0:
        return None
    return res.x[:nS]


def gain_of_policy(arr, pim, pinned):
    T, ER = pinned_model(arr, pinned)
    nS = arr.avail.shape[0]
    P = np.einsum("san,sa->sn", T, pim)
    r = np.einsum("sa,sa->s", ER, pim)
    comp = tarjan(P > 0)
    ncomp = max(comp) + 1 if nS else 0
    classes = []
    for c in range(ncomp):
        members = [i for i in range(nS) if comp[i] == c]
        outside = np.ones(nS, dtype=bool)
        outside[members] = False
        if not bool((P[members][:, outside] > 0).any()):       # structural: an exit probability of 2^-50 is an exit
            classes.append(members)
    rec = sorted(i for m in classes for i in m)
    trans = [i for i in range(nS) if i not in rec]
    g = np.zeros(nS)
    class_gain = []
    for m in classes:
        Pc = P[np.ix_(m, m)]
        k = len(m)
        Aeq = np.vstack([(Pc.T - np.eye(k)), np.ones((1, k))])
        beq = np.concatenate([np.zeros(k), [1.0]])
        pi, *_ = np.linalg.lstsq(Aeq, beq, rcond=None)
        gc = float(pi @ r[m])
        class_gain.append(gc)
        g[m] = gc
    if trans:
        Ptt = P[np.ix_(trans, trans)]
        rhs = np.zeros(len(trans))
        for m, gc in zip(classes, class_gain):
            rhs += P[np.ix_(trans, m)].sum(axis=1) * gc
        g[trans] = np.linalg.solve(np.eye(len(trans)) - Ptt, rhs)
    return g
