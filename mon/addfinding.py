"""Development helper (never run by checks): python -m mon.addfinding fixed C04 <commit> "<what failed>"
                                             python -m mon.addfinding open C09 <mechanism> "<description>" "<example>" "<why not fixed>" """
import json, sys, os
P = os.path.join(os.path.dirname(os.path.dirname(os.path.abspath(__file__))), "known_findings.json")
kf = json.load(open(P))
kind = sys.argv[1]
if kind == "fixed":
    _, _, prop, commit, what = sys.argv
    kf["findings"].append({"property": prop, "mechanism": f"fixed-{commit}", "status": "fixed", "commit": commit,
                           "description": f"fixed: property={prop} {commit} {what}"})
else:
    _, _, prop, mech, desc, example, why = sys.argv
    kf["findings"].append({"property": prop, "mechanism": mech, "status": "open", "description": desc,
                           "example": example, "why_not_fixed": why})
json.dump(kf, open(P, "w"), indent=1)
