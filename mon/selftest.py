"""setup_cmd: builds nothing, fetches nothing. Confirms the interpreter, that msdm imports from
/repo's working tree, and that the reference models reproduce hand-computed examples."""
import sys
import os
import numpy as np


def main():
    sys.path.insert(0, "/repo")
    import msdm
    assert os.path.realpath(msdm.__file__).startswith("/repo/"), msdm.__file__
    from scipy.optimize import linprog  # noqa: F401  (C16 reference)
    from mon.gen.mdp import Spec
    from mon.ref import mdp as Rf
    # two-state chain: s --a(-1)--> g (absorbing); gamma .5 ; loop action b: s->s reward -1
    sp = Spec()
    sp.states = ["s", "g"]
    sp.acts = {"s": ("a", "b"), "g": ("a",)}
    sp.P = {("s", "a"): [("g", 1.0)], ("s", "b"): [("s", 1.0)], ("g", "a"): [("g", 1.0)]}
    sp.R = {("s", "a", "g"): -1.0, ("s", "b", "s"): -1.0, ("g", "a", "g"): 0.0}
    sp.flag = {"g"}
    sp.init = [("s", 1.0)]
    sp.gamma = 0.5
    arr = Rf.Arr(sp)
    sol = Rf.solve(arr)
    assert sol.ok and abs(sol.V[0] + 1.0) < 1e-12 and sol.V[1] == 0.0, sol.V
    assert abs(sol.Q[0, 1] - (-1.5)) < 1e-12
    pi = np.array([[0.5, 0.5], [1.0, 0.0]])
    ev = Rf.evaluate_policy_matrix(arr, pi, arr.absorbing, 0.5)
    # V = -1 + .5*.5*V  -> V = -4/3
    assert abs(ev["V"][0] + 4 / 3) < 1e-12
    ev1 = Rf.evaluate_policy_matrix(arr, np.array([[0.0, 1.0], [1.0, 0.0]]), arr.absorbing, 1.0)
    assert ev1["V"][0] == -np.inf
    print("selftest ok: msdm from", os.path.dirname(msdm.__file__))
    return 0


if __name__ == "__main__":
    sys.exit(main())
