"""Present a Spec to msdm in one of several representations (this module imports msdm)."""
import numpy as np
from msdm.core.mdp import TabularMarkovDecisionProcess, QuickTabularMDP, QuickMDP
from msdm.core.distributions import DictDistribution, UniformDistribution, DeterministicDistribution

REPRS = ("subclass", "quicktabular", "subclass_explicit", "quicktabular_explicit")


def make_dist(lst, kind, sp=None):
    lab = (lambda t: _fresh(t)) if (sp is not None and sp.meta.get("fresh_labels")) else (lambda t: t)
    if kind == "det" and len(lst) == 1:
        return DeterministicDistribution(lab(lst[0][0]))
    if kind == "uniform":
        return UniformDistribution([lab(t) for t, _ in lst])
    if kind == "multiset":
        # a uniform distribution over a MULTISET of outcomes (UniformDistribution(..., check_unique=False)): an outcome
        # that several equally likely results lead to is listed once per result
        from fractions import Fraction
        import math
        fr = [Fraction(q).limit_denominator(24) for _, q in lst]
        k = 1
        for f_ in fr:
            k = k * f_.denominator // math.gcd(k, f_.denominator)
        events = []
        for (t, _), f_ in zip(lst, fr):
            events.extend([lab(t)] * int(f_ * k))
        return UniformDistribution(events, check_unique=False)
    if sp is not None and sp.meta.get("num_type") == "np":
        return DictDistribution({lab(t): np.float64(q) for t, q in lst})
    return DictDistribution({lab(t): q for t, q in lst})


def _fresh(t):
    """a distinct object that compares (and hashes) equal to t, where the type allows one"""
    if type(t) is tuple:
        return tuple(list(t))
    if type(t) is str and len(t) > 1:
        return "".join(list(t))
    try:
        from frozendict import frozendict
        if isinstance(t, frozendict):
            return frozendict(dict(t))
    except Exception:
        pass
    return t


def _num(sp, x):
    t = sp.meta.get("num_type", "float")
    if t == "int_if_integral" and float(x).is_integer() and abs(x) < 1e15:
        return int(x)
    if t == "np":
        return np.float64(x)
    return x


def _acts(sp, s):
    a = sp.acts[s]
    return list(a) if sp.meta.get("actions_type") == "list" else a


class SpecMDP(TabularMarkovDecisionProcess):
    def __init__(self, sp, explicit=False, shuffle_rng=None):
        self.sp = sp
        self.discount_rate = sp.gamma
        if explicit:
            states = list(sp.states)
            actions = list(sp.action_universe())
            if shuffle_rng is not None:
                shuffle_rng.shuffle(states)
                shuffle_rng.shuffle(actions)
            self._state_list = tuple(states)
            if explicit != "states":            # "states": the state list is given, the action list is left to be inferred
                self._action_list = tuple(actions)

    def next_state_dist(self, s, a):
        return make_dist(self.sp.P[(s, a)], self.sp.kind[(s, a)], self.sp)

    def reward(self, s, a, ns):
        return _num(self.sp, self.sp.R.get((s, a, ns), 0.0))

    def actions(self, s):
        return _acts(self.sp, s)

    def initial_state_dist(self):
        return make_dist(self.sp.init, self.sp.init_kind, self.sp)

    def is_absorbing(self, s):
        return _flag(self.sp, s)


class Tagged:
    """a state object that compares, hashes, sorts and prints like its raw label but carries a note (which step emitted
    it) that takes no part in equality - like a dataclass field declared with compare=False"""
    __slots__ = ("raw", "tag")

    def __init__(self, raw, tag=None):
        self.raw, self.tag = raw, tag

    def __hash__(self):
        return hash(self.raw)

    def __eq__(self, o):
        return self.raw == (o.raw if isinstance(o, Tagged) else o)

    def __ne__(self, o):
        return not self.__eq__(o)

    def __lt__(self, o):
        return self.raw < (o.raw if isinstance(o, Tagged) else o)

    def __gt__(self, o):
        return self.raw > (o.raw if isinstance(o, Tagged) else o)

    def __repr__(self):
        return repr(self.raw)


def _raw(x):
    return x.raw if isinstance(x, Tagged) else x


class AnnotatedMDP(SpecMDP):
    """every emitted next state carries the (state, action) that emitted it, and reward(s, a, ns) reads that note: it
    is the spec's reward when the note is absent or names this very step, and garbage (+1000) when it is handed an
    equal state object that some OTHER step emitted. R(s, a, s') is still a function of (s, a, s')."""

    def next_state_dist(self, s, a):
        d = SpecMDP.next_state_dist(self, s, a)
        tag = (_raw(s), a)
        if isinstance(d, DeterministicDistribution):
            return DeterministicDistribution(Tagged(_raw(d.value), tag))
        return DictDistribution({Tagged(_raw(ns), tag): p for ns, p in d.items()})

    def reward(self, s, a, ns):
        r = SpecMDP.reward(self, s, a, ns)
        tag = getattr(ns, "tag", None)
        if tag is not None and tag != (_raw(s), a):
            return r + 1000.0
        return r

    def initial_state_dist(self):
        d = SpecMDP.initial_state_dist(self)
        return DictDistribution({Tagged(_raw(s), None): p for s, p in d.items()})


class DSPOverrideMDP(SpecMDP):
    pass


def _dsp_override_class():
    """a model written by SUBCLASSING the library's deterministic-shortest-path class (nominal dynamics: the most likely
    successor) and overriding its public next_state_dist / initial_state_dist with the real, stochastic ones"""
    from msdm.core.mdp.deterministic_shortest_path import DeterministicShortestPathProblem

    class Nominal(DeterministicShortestPathProblem, TabularMarkovDecisionProcess):
        def next_state(self, s, a):
            return max(self.sp.P[(s, a)], key=lambda x: x[1])[0]

        def initial_state(self):
            return max(self.sp.init, key=lambda x: x[1])[0]

    class Slippery(Nominal):
        __init__ = SpecMDP.__init__
        next_state_dist = SpecMDP.next_state_dist          # the overrides
        initial_state_dist = SpecMDP.initial_state_dist
        reward = SpecMDP.reward
        actions = SpecMDP.actions
        is_absorbing = SpecMDP.is_absorbing
    return Slippery


class QuickOverrideMDP(QuickTabularMDP):
    """a QuickTabularMDP built from PLACEHOLDER functions whose public methods are then overridden in a subclass"""
    def __init__(self, sp):
        self.sp = sp
        QuickTabularMDP.__init__(self, next_state_dist=lambda s, a: DeterministicDistribution(s), reward=0.0,
                                 actions=lambda s: (), initial_state_dist=DeterministicDistribution(sp.states[0]),
                                 is_absorbing=lambda s: False, discount_rate=sp.gamma)
    next_state_dist = SpecMDP.next_state_dist
    reward = SpecMDP.reward
    actions = SpecMDP.actions
    initial_state_dist = SpecMDP.initial_state_dist
    is_absorbing = SpecMDP.is_absorbing


class PersistentActionsMDP(SpecMDP):
    """actions(s) hands out the SAME list object on every call (as QuickMDP(actions=[...]) would)"""
    def __init__(self, sp):
        super().__init__(sp)
        self.action_lists = {s: list(sp.acts[s]) for s in sp.states}
        self.action_snapshot = {s: tuple(v) for s, v in self.action_lists.items()}

    def actions(self, s):
        return self.action_lists[s]


def _flag(sp, s):
    """is_absorbing() may legitimately answer with a bool, a 0/1 int or a numpy bool"""
    t = sp.meta.get("abs_type", "bool")
    b = s in sp.flag
    if t == "int":
        return int(b)
    if t == "npbool":
        return np.bool_(b)
    return b


def quick(sp, explicit=False, tabular=True, shuffle_rng=None):
    cls = QuickTabularMDP if tabular else QuickMDP
    mdp = cls(
        next_state_dist=lambda s, a: make_dist(sp.P[(s, a)], sp.kind[(s, a)], sp),
        reward=lambda s, a, ns: _num(sp, sp.R.get((s, a, ns), 0.0)),
        actions=lambda s: _acts(sp, s),
        initial_state_dist=make_dist(sp.init, sp.init_kind, sp),
        is_absorbing=lambda s: _flag(sp, s),
        # an undiscounted model written the way its author would: discount_rate left at its documented default of 1.0
        **({} if (sp.gamma == 1.0 and sp.meta.get("rely_on_defaults")) else dict(discount_rate=sp.gamma)),
    )
    if explicit:
        states = list(sp.states)
        actions = list(sp.action_universe())
        if shuffle_rng is not None:
            shuffle_rng.shuffle(states)
            shuffle_rng.shuffle(actions)
        mdp._state_list = tuple(states)
        mdp._action_list = tuple(actions)
    return mdp


def build(sp, rep, shuffle_rng=None):
    if rep == "subclass":
        return SpecMDP(sp)
    if rep == "subclass_explicit":
        return SpecMDP(sp, explicit=True, shuffle_rng=shuffle_rng)
    if rep == "quicktabular":
        return quick(sp)
    if rep == "quicktabular_explicit":
        return quick(sp, explicit=True, shuffle_rng=shuffle_rng)
    if rep == "annotated":
        return AnnotatedMDP(sp)
    if rep == "dsp_override":
        return _dsp_override_class()(sp)
    if rep == "quick_override":
        return QuickOverrideMDP(sp)
    if rep == "subclass_explicit_states":
        return SpecMDP(sp, explicit="states", shuffle_rng=shuffle_rng)
    raise ValueError(rep)


def policy_matrix_of(policy_table, S, A):
    """Read a TabularPolicy-like table into a matrix in (S, A) order through its public
    mapping interface."""
    m = np.zeros((len(S), len(A)))
    for i, s in enumerate(S):
        row = policy_table[s]
        for j, a in enumerate(A):
            try:
                m[i, j] = row[a]
            except BaseException:
                m[i, j] = 0.0
    return m


def build_pomdp(sp, explicit=False):
    from msdm.core.pomdp import TabularPOMDP

    class SpecPOMDP(TabularPOMDP):
        def __init__(self):
            self.sp = sp
            self.discount_rate = sp.gamma
            if explicit:
                self._state_list = tuple(sp.states)
                self._action_list = tuple(sp.action_universe())

        def next_state_dist(self, s, a):
            return make_dist(sp.P[(s, a)], sp.kind[(s, a)], sp)

        def reward(self, s, a, ns):
            return _num(sp, sp.R.get((s, a, ns), 0.0))

        def actions(self, s):
            return _acts(sp, s)

        def initial_state_dist(self):
            return make_dist(sp.init, sp.init_kind, sp)

        def is_absorbing(self, s):
            return _flag(sp, s)

        def observation_dist(self, a, ns):
            return DictDistribution({o: p for o, p in sp.O[(a, ns)]})
    return SpecPOMDP()
