"""Present a Spec to msdm in one of several representations (this module imports msdm)."""
import numpy as np
from msdm.core.mdp import TabularMarkovDecisionProcess, QuickTabularMDP, QuickMDP
from msdm.core.distributions import DictDistribution, UniformDistribution, DeterministicDistribution

REPRS = ("subclass", "quicktabular", "subclass_explicit", "quicktabular_explicit")


def make_dist(lst, kind):
    if kind == "det" and len(lst) == 1:
        return DeterministicDistribution(lst[0][0])
    if kind == "uniform":
        return UniformDistribution([t for t, _ in lst])
    return DictDistribution({t: q for t, q in lst})


class SpecMDP(TabularMarkovDecisionProcess):
    def __init__(self, sp, explicit=False, shuffle_rng=None):
        self.sp = sp
        self.discount_rate = sp.gamma
        if explicit:
            states = list(sp.states)
            actions = list(sp.action_universe())
            if shuffle_rng is not None:
                shuffle_rng.shuffle(states)
                shuffle_rng.shuffle(actions)
            self._state_list = tuple(states)
            self._action_list = tuple(actions)

    def next_state_dist(self, s, a):
        return make_dist(self.sp.P[(s, a)], self.sp.kind[(s, a)])

    def reward(self, s, a, ns):
        return self.sp.R.get((s, a, ns), 0.0)

    def actions(self, s):
        return self.sp.acts[s]

    def initial_state_dist(self):
        return make_dist(self.sp.init, self.sp.init_kind)

    def is_absorbing(self, s):
        return _flag(self.sp, s)


class PersistentActionsMDP(SpecMDP):
    """actions(s) hands out the SAME list object on every call (as QuickMDP(actions=[...]) would)"""
    def __init__(self, sp):
        super().__init__(sp)
        self.action_lists = {s: list(sp.acts[s]) for s in sp.states}
        self.action_snapshot = {s: tuple(v) for s, v in self.action_lists.items()}

    def actions(self, s):
        return self.action_lists[s]


def _flag(sp, s):
    """is_absorbing() may legitimately answer with a bool, a 0/1 int or a numpy bool"""
    t = sp.meta.get("abs_type", "bool")
    b = s in sp.flag
    if t == "int":
        return int(b)
    if t == "npbool":
        return np.bool_(b)
    return b


def quick(sp, explicit=False, tabular=True, shuffle_rng=None):
    cls = QuickTabularMDP if tabular else QuickMDP
    mdp = cls(
        next_state_dist=lambda s, a: make_dist(sp.P[(s, a)], sp.kind[(s, a)]),
        reward=lambda s, a, ns: sp.R.get((s, a, ns), 0.0),
        actions=lambda s: sp.acts[s],
        initial_state_dist=make_dist(sp.init, sp.init_kind),
        is_absorbing=lambda s: _flag(sp, s),
        discount_rate=sp.gamma,
    )
    if explicit:
        states = list(sp.states)
        actions = list(sp.action_universe())
        if shuffle_rng is not None:
            shuffle_rng.shuffle(states)
            shuffle_rng.shuffle(actions)
        mdp._state_list = tuple(states)
        mdp._action_list = tuple(actions)
    return mdp


def build(sp, rep, shuffle_rng=None):
    if rep == "subclass":
        return SpecMDP(sp)
    if rep == "subclass_explicit":
        return SpecMDP(sp, explicit=True, shuffle_rng=shuffle_rng)
    if rep == "quicktabular":
        return quick(sp)
    if rep == "quicktabular_explicit":
        return quick(sp, explicit=True, shuffle_rng=shuffle_rng)
    raise ValueError(rep)


def policy_matrix_of(policy_table, S, A):
    """Read a TabularPolicy-like table into a matrix in (S, A) order through its public
    mapping interface."""
    m = np.zeros((len(S), len(A)))
    for i, s in enumerate(S):
        row = policy_table[s]
        for j, a in enumerate(A):
            try:
                m[i, j] = row[a]
            except BaseException:
                m[i, j] = 0.0
    return m


def build_pomdp(sp, explicit=False):
    from msdm.core.pomdp import TabularPOMDP

    class SpecPOMDP(TabularPOMDP):
        def __init__(self):
            self.sp = sp
            self.discount_rate = sp.gamma
            if explicit:
                self._state_list = tuple(sp.states)
                self._action_list = tuple(sp.action_universe())

        def next_state_dist(self, s, a):
            return make_dist(sp.P[(s, a)], sp.kind[(s, a)])

        def reward(self, s, a, ns):
            return sp.R.get((s, a, ns), 0.0)

        def actions(self, s):
            return sp.acts[s]

        def initial_state_dist(self):
            return make_dist(sp.init, sp.init_kind)

        def is_absorbing(self, s):
            return _flag(sp, s)

        def observation_dist(self, a, ns):
            return DictDistribution({o: p for o, p in sp.O[(a, ns)]})
    return SpecPOMDP()
