"""Admissible heuristics (never under-estimate V*) for LAO*/LRTDP workloads."""


def make_heuristic(rng, arr, sol, gamma):
    S = arr.S
    V = {s: float(sol.V[i]) for i, s in enumerate(S)}
    rmax = float(max(0.0, arr.R[arr.T > 0].max() if (arr.T > 0).any() else 0.0))
    kinds = ["exact", "slack", "slack", "const"]
    if gamma < 1:
        kinds.append("rmax_bound")
    if rmax == 0.0:
        kinds.append("zero")
    kind = rng.choice(kinds)
    if kind == "exact":
        h = dict(V)
    elif kind == "slack":           # inconsistent on purpose: independent non-negative slack per state
        h = {s: v + rng.choice([0.0, 0.0, 0.5, 1.0, 3.0, 10.0]) for s, v in V.items()}
    elif kind == "const":
        c = max(V.values()) + rng.choice([0.0, 1.0, 5.0])
        h = {s: max(c, 0.0) for s in S}
    elif kind == "rmax_bound":
        h = {s: rmax / (1 - gamma) for s in S}
    else:
        h = {s: 0.0 for s in S}
    # admissible at absorbing states too (V* = 0 there) but deliberately non-zero sometimes
    for i, s in enumerate(S):
        if arr.absorbing[i]:
            h[s] = max(0.0, h[s]) if rng.random() < 0.5 else rng.choice([0.0, 2.0, 7.0])
    return kind, h
