"""Seeded MDP spec generator (no msdm imports). A Spec is plain dictionaries; probabilities are
floats k/den with small denominators, rewards small integers (or halves)."""
import itertools
from collections import namedtuple
from fractions import Fraction

try:
    from frozendict import frozendict
except Exception:  # pragma: no cover
    frozendict = None

Pos = namedtuple("Pos", "x y")


class Spec:
    def __init__(self):
        self.states = []        # closed list of states
        self.acts = {}          # s -> tuple of actions (>=1)
        self.P = {}             # (s,a) -> list[(ns, p)]   may contain p == 0.0 entries
        self.R = {}             # (s,a,ns) -> float
        self.flag = set()       # states for which is_absorbing() is True
        self.init = []          # list[(s,p)], may contain p == 0.0
        self.gamma = 0.9
        self.kind = {}          # (s,a) -> 'dict' | 'uniform' | 'det'
        self.init_kind = "dict"
        self.family = "any"
        self.meta = {}

    # functional view (used by references and by the msdm wrappers alike)
    def p(self, s, a, ns):
        return sum(q for t, q in self.P[(s, a)] if t == ns)

    def succ(self, s, a):
        out = {}
        for t, q in self.P[(s, a)]:
            if q > 0:
                out[t] = out.get(t, 0.0) + q
        return out

    def reward(self, s, a, ns):
        return self.R.get((s, a, ns), 0.0)

    def action_universe(self):
        seen = []
        for s in self.states:
            for a in self.acts[s]:
                if a not in seen:
                    seen.append(a)
        return seen

    def describe(self, limit=6):
        d = {"family": self.family, "gamma": self.gamma, "n_states": len(self.states),
             "states": [repr(s) for s in self.states[:limit]],
             "flag": [repr(s) for s in self.states if s in self.flag][:limit],
             "init": [(repr(s), p) for s, p in self.init]}
        tr = []
        for (s, a), lst in list(self.P.items())[:limit]:
            tr.append({"s": repr(s), "a": repr(a),
                       "next": [(repr(t), q, self.R.get((s, a, t), 0.0)) for t, q in lst]})
        d["transitions_head"] = tr
        d.update(self.meta)
        return d


# ---------------------------------------------------------------------------------------------
def rand_probs(rng, k, dens=(2, 3, 4, 5, 8, 10)):
    """k positive floats n_i/den summing to 1 (as exactly as floats allow)."""
    if k == 1:
        return [1.0]
    den = rng.choice([d for d in dens if d >= k] or [k])
    cuts = sorted(rng.sample(range(1, den), k - 1))
    parts = [b - a for a, b in zip([0] + cuts, cuts + [den])]
    return [float(Fraction(p, den)) for p in parts]


LABEL_KINDS = ("int", "str", "tuple", "mixed", "frozendict", "namedtuple", "mixed2")


def make_labels(rng, n, kind):
    if kind == "int":
        base = rng.sample(range(-3, 40), n)
        return base
    if kind == "str":
        pool = ["s%d" % i for i in range(30)] + ["a", "b", "goal", "x y", "", "S0"]
        return rng.sample(pool, n)
    if kind == "tuple":
        pool = list(itertools.product(range(4), range(4)))
        return rng.sample(pool, n)
    if kind == "namedtuple":
        pool = [Pos(x, y) for x in range(4) for y in range(4)]
        return rng.sample(pool, n)
    if kind == "frozendict" and frozendict is not None:
        pool = [frozendict(x=x, y=y) for x in range(4) for y in range(4)]
        return rng.sample(pool, n)
    # mixed, unsortable
    pool = [0, 1, 2, 7, -1, "a", "b", "s0", "1", (0, 0), (0, 1), (1, "a"), ("a",), (), Pos(0, 1),
            frozenset([1, 2]), frozenset()]   # None is excluded: msdm's API uses None as "no state given"
    if frozendict is not None:
        pool += [frozendict(x=0), frozendict(x=1, y="q")]
    # (0,1) == Pos(0,1) would collide: drop one of them
    pool = [p for p in pool if not (isinstance(p, Pos))]
    return rng.sample(pool, n)


def make_action_labels(rng, m):
    kind = rng.choice(["str", "int", "tuple", "mixed"])
    if kind == "str":
        return rng.sample(["left", "right", "up", "down", "stay", "a0", "a1", "b"], m)
    if kind == "int":
        return rng.sample(range(0, 9), m)
    if kind == "tuple":
        return rng.sample([(0, 1), (1, 0), (-1, 0), (0, -1), (0, 0)], m)
    return rng.sample([0, "x", (1, 0), "y", 3, ("z",)], m)


def random_spec(rng, family="any", n_max=8, a_max=4, label_kind=None, uniform_actions=False,
                allow_zero_entries=True, allow_live_absorbing=True, gamma=None,
                reward_sign=None, min_states=1, allow_dup_actions=True, allow_implicit=True,
                near_absorbing=False, reward_scale=1.0, trap_entry=False, near_dup_actions=False):
    """families:
       any        gamma<1, arbitrary structure, rewards of either sign
       proper     every policy reaches an absorbing state w.p.1 (hidden rank order), any gamma
       sspneg     gamma=1, strictly negative rewards off absorbing states, every state can reach
                  absorption (improper policies allowed), optional disconnected trap component
       zerocycle  gamma=1, rewards <= 0 with zero-reward moves among non-absorbing states
       avg        gamma=1, recurrent structure for average reward (C16); no flagged live states
    """
    sp = Spec()
    sp.family = family
    n = rng.randint(min_states, n_max)
    if family in ("proper", "sspneg", "zerocycle") and n < 2 and rng.random() < 0.8:
        n = rng.randint(2, max(2, n_max))
    label_kind = label_kind or rng.choice(LABEL_KINDS)
    sp.meta["label_kind"] = label_kind
    states = make_labels(rng, n, label_kind)
    sp.states = list(states)
    m = rng.randint(1, a_max)
    alabels = make_action_labels(rng, m)
    if gamma is None:
        if family == "any":
            gamma = rng.choice([0.3, 0.5, 0.9, 0.95, 0.99] * 6 + [0.01, 0.01, 0.999])     # end points occasionally
        elif family == "proper":
            gamma = rng.choice([0.5, 0.9, 0.99, 1.0, 1.0])
        else:
            gamma = 1.0
    sp.gamma = gamma

    # ---- absorbing structure ----------------------------------------------------------------
    idx = list(range(n))
    rank = idx[:]            # rank order = index order after shuffle of labels (labels are random)
    n_abs = 0
    if family in ("proper", "sspneg", "zerocycle"):
        n_abs = rng.randint(1, max(1, n // 3))
    elif family == "any":
        n_abs = rng.choice([0, 0, 1, 1, 2]) if n > 1 else rng.choice([0, 1])
        n_abs = min(n_abs, n)
    elif family == "avg":
        n_abs = rng.choice([0, 0, 0, 1]) if n > 1 else 0
    absorbing = set(idx[n - n_abs:]) if n_abs else set()    # top ranks are absorbing
    abs_kind = {}
    for i in absorbing:
        if family == "avg":
            abs_kind[i] = "implicit"
        else:
            kinds = ["zero", "zero", "implicit"] if allow_implicit else ["zero", "zero"]
            if allow_live_absorbing:
                kinds += ["live", "live"]
            abs_kind[i] = rng.choice(kinds)
    trap = set()
    if family == "sspneg" and n - n_abs >= 3 and rng.random() < (0.6 if trap_entry else 0.3):
        # a disconnected trap component (cannot reach absorption; only enterable via init)
        k = rng.randint(1, 2)
        trap = set(idx[:k])

    # ---- actions -------------------------------------------------------------------------------
    for i, s in enumerate(states):
        if uniform_actions:
            sp.acts[s] = tuple(alabels)
        else:
            k = rng.randint(1, m)
            sp.acts[s] = tuple(rng.sample(alabels, k))

    # ---- rewards -----------------------------------------------------------------------------
    if reward_sign is None:
        reward_sign = {"any": rng.choice(["mixed", "mixed", "neg", "pos"]),
                       "proper": rng.choice(["mixed", "neg", "pos"]),
                       "sspneg": "strictneg", "zerocycle": "nonpos",
                       "avg": rng.choice(["mixed", "neg", "pos"])}[family]
    sp.meta["reward_sign"] = reward_sign

    def rand_reward():
        if reward_sign == "mixed":
            return float(rng.choice([-5, -2, -1, -1, 0, 0, 1, 2, 3, 10, -0.5, 2.5]))
        if reward_sign == "neg":
            return float(rng.choice([-5, -2, -1, -1, 0, -0.5]))
        if reward_sign == "pos":
            return float(rng.choice([0, 1, 1, 2, 5, 0.5]))
        if reward_sign == "strictneg":
            return float(rng.choice([-1, -1, -2, -3, -0.5, -7]))
        if reward_sign == "nonpos":
            return float(rng.choice([0, 0, 0, -1, -2, -3]))
        raise ValueError(reward_sign)

    # ---- transitions -----------------------------------------------------------------------
    dup_done = False
    for i, s in enumerate(states):
        for a in sp.acts[s]:
            if i in absorbing and abs_kind[i] in ("zero", "implicit"):
                sp.P[(s, a)] = [(s, 1.0)]
                sp.R[(s, a, s)] = 0.0
                sp.kind[(s, a)] = rng.choice(["dict", "det", "uniform"])
                continue
            k = rng.choice([1, 1, 2, 2, 3])
            if i in trap:
                cand = sorted(trap)
            elif family == "sspneg" and trap:
                cand = [j for j in idx if j not in trap]
            else:
                cand = idx
            k = min(k, len(cand))
            succ = rng.sample(cand, k)
            if family == "proper" and i not in absorbing:
                # positive probability of moving strictly up the rank order
                if not any(j > i for j in succ):
                    succ[rng.randrange(len(succ))] = rng.randint(i + 1, n - 1)
                    succ = list(dict.fromkeys(succ))
            if family in ("sspneg", "zerocycle") and i not in absorbing and i not in trap:
                # every state CAN reach absorption (some action moves up w.p.>0): enforce on first action
                if a == sp.acts[s][0] and not any(j > i for j in succ):
                    up = [j for j in range(i + 1, n) if j not in trap]
                    succ[rng.randrange(len(succ))] = rng.choice(up)
                    succ = list(dict.fromkeys(succ))
            probs = rand_probs(rng, len(succ))
            lst = [(states[j], p) for j, p in zip(succ, probs)]
            kind = "dict"
            if len(lst) == 1 and rng.random() < 0.5:
                kind = rng.choice(["det", "uniform"])
            elif len(lst) > 1 and rng.random() < 0.2:
                kind = "uniform"
                lst = [(t, 1.0 / len(lst)) for t, _ in lst]
            if kind == "dict" and allow_zero_entries and rng.random() < 0.15:
                others = [t for t in states if t not in [x for x, _ in lst]]
                if others:
                    lst.insert(rng.randrange(len(lst) + 1), (rng.choice(others), 0.0))
            sp.P[(s, a)] = lst
            sp.kind[(s, a)] = kind
            for t, q in lst:
                r = rand_reward()
                if family == "zerocycle" and i not in absorbing:
                    r = rand_reward()
                if q == 0.0 and rng.random() < 0.5:
                    # the reward FUNCTION may say anything about a transition that cannot happen: make it larger than
                    # every real reward, so that whoever lets it leak (a maximum, an unweighted sum) is found out
                    r = abs(r) * 10.0 + 50.0
                    sp.meta["big_reward_on_impossible_transition"] = True
                sp.R[(s, a, t)] = r
        # exact duplicate action (bit-identical) to manufacture exact ties
        if (allow_dup_actions and not dup_done and i not in absorbing and len(sp.acts[s]) >= 2
                and rng.random() < 0.25):
            a0, a1 = sp.acts[s][0], sp.acts[s][1]
            sp.P[(s, a1)] = list(sp.P[(s, a0)])
            sp.kind[(s, a1)] = sp.kind[(s, a0)]
            for t, _ in sp.P[(s, a0)]:
                sp.R[(s, a1, t)] = sp.R[(s, a0, t)]
            sp.meta.setdefault("dup", []).append((repr(s), repr(a0), repr(a1)))
            dup_done = rng.random() < 0.5

    if family in ("any", "avg") and rng.random() < 0.15:
        # a SINK THAT PAYS: every action self-loops with probability 1, the rewards cancel (+r, -r[, ...]) but are not
        # all zero - so the state is NOT absorbing (its value is r/(1-gamma), its gain r), whatever a sum says
        dup_states = {d[0] for d in sp.meta.get("dup", [])}
        cand = [i for i in idx if i not in absorbing and i not in trap and len(sp.acts[states[i]]) >= 2
                and repr(states[i]) not in dup_states]
        if cand:
            i = rng.choice(cand)
            s = states[i]
            acts_ = list(sp.acts[s])
            r = float(rng.choice([1, 2, 3]))
            vals = [r, -r] if len(acts_) == 2 else [r] + [-r / (len(acts_) - 1)] * (len(acts_) - 1)
            if len(acts_) == 4:
                vals = [r, -r, 2 * r, -2 * r]
            rng.shuffle(vals)
            for a, v in zip(acts_, vals):
                sp.P[(s, a)] = [(s, 1.0)]
                sp.kind[(s, a)] = rng.choice(["dict", "det", "uniform"])
                for key in [k_ for k_ in sp.R if k_[0] == s and k_[1] == a]:
                    del sp.R[key]
                sp.R[(s, a, s)] = v
            sp.meta["paying_sink"] = repr(s)
    if family in ("any", "proper") and rng.random() < 0.12:
        # (not for the average-reward family: its reference is a linear program solved to ~1e-7 feasibility, which cannot
        # tell a probability of 1e-12 from 0)
        # a RARE BUT POSSIBLE transition: one successor keeps an exact tiny probability d, the rest of its mass goes to
        # another successor of the same action (the list still sums to 1 exactly as floats)
        dup_states = {d_[0] for d_ in sp.meta.get("dup", [])}
        cands = [key for key, lst in sp.P.items() if sp.kind[key] == "dict" and sum(1 for _, q in lst if q > 0) >= 2
                 and key[0] not in {states[i] for i in absorbing} and repr(key[0]) not in dup_states]
        if family == "proper":
            # the rare successor must not be the only way up the rank order (else a trial takes ~1/d steps): the
            # successor that receives the moved mass has to be a move up
            rk = {t: j for j, t in enumerate(states)}
            cands = [key for key in cands
                     if rk[[t for t, q in sp.P[key] if q > 0][0]] > rk[key[0]]]
        if cands:
            key = rng.choice(sorted(cands, key=repr))
            lst = list(sp.P[key])
            pos = [k_ for k_, (_, q) in enumerate(lst) if q > 0]
            k_small, k_big = pos[-1], pos[0]
            d = rng.choice([1e-9, 2.0 ** -40, 1e-12, 2.0 ** -50])       # 1 - d is still a float below 1
            moved = lst[k_small][1] - d
            lst[k_small] = (lst[k_small][0], d)
            lst[k_big] = (lst[k_big][0], lst[k_big][1] + moved)
            sp.P[key] = lst
            sp.meta["tiny_transition"] = d
    if near_absorbing and rng.random() < 0.35:
        # a state that ALMOST self-loops (probability 1 - d) with zero rewards: not absorbing by definition
        cand = [i for i in idx if i not in absorbing and i not in trap]
        others = [j for j in idx if j not in trap]
        if cand and len(others) >= 2:
            i = rng.choice(cand)
            s = states[i]
            d = rng.choice([2.0 ** -20, 1e-6, 1e-9, 2.0 ** -40])
            for a in sp.acts[s]:
                t = states[rng.choice([j for j in others if j != i])]
                sp.P[(s, a)] = [(s, 1.0 - d), (t, d)]
                sp.kind[(s, a)] = "dict"
                sp.R[(s, a, s)] = 0.0
                sp.R[(s, a, t)] = 0.0
            sp.meta["near_absorbing"] = repr(s)
    if trap and trap_entry:
        # a costly one-way action from the solvable part into the trap component: never optimal (its cost
        # exceeds any finite optimal value), but it makes the trap *enterable*, so "cannot reach an absorbing
        # state" is no longer the same thing as "disconnected from the rest"
        cand = [i for i in idx if i not in absorbing and i not in trap]
        if cand:
            i = rng.choice(cand)
            s = states[i]
            free = [a for a in alabels if a not in sp.acts[s]] or ["pit"]
            a = free[0]
            sp.acts[s] = tuple(sp.acts[s]) + (a,)
            t = states[rng.choice(sorted(trap))]
            sp.P[(s, a)] = [(t, 1.0)]
            sp.kind[(s, a)] = rng.choice(["dict", "det"])
            sp.R[(s, a, t)] = -1000.0
            sp.meta["trap_entry"] = (repr(s), repr(a))
    if near_dup_actions:
        # an action that is a copy of another one except that it pays a hair less (relative 1e-7): the two
        # action values differ, but only in the 7th digit -- "exactly the maximal-Q actions" is then sharp
        cand = [states[i] for i in idx if i not in absorbing and i not in trap and len(sp.acts[states[i]]) >= 2]
        for s in cand[:2]:
            a0, a1 = sp.acts[s][0], sp.acts[s][1]
            sp.P[(s, a1)] = list(sp.P[(s, a0)])
            sp.kind[(s, a1)] = sp.kind[(s, a0)]
            for t, _ in sp.P[(s, a0)]:
                r = sp.R[(s, a0, t)]
                sp.R[(s, a1, t)] = r - 1e-7 * max(1.0, abs(r))
            sp.meta.setdefault("near_dup", []).append((repr(s), repr(a0), repr(a1)))
    if reward_scale != 1.0:
        for key in sp.R:
            sp.R[key] = sp.R[key] * reward_scale
        sp.meta["reward_scale"] = reward_scale
    sp.flag = {states[i] for i in absorbing if abs_kind[i] in ("zero", "live")}
    sp.meta["abs_kinds"] = sorted(abs_kind.values())
    sp.meta["abs_type"] = rng.choice(["bool", "bool", "int", "npbool"])    # what is_absorbing() returns
    # representation of the SAME problem: number types of rewards / probabilities, container type of actions(s),
    # and whether successor labels are the listed objects or fresh objects that merely compare equal
    sp.meta["num_type"] = rng.choice(["float", "float", "int_if_integral", "np"])
    sp.meta["actions_type"] = rng.choice(["tuple", "tuple", "list"])
    sp.meta["fresh_labels"] = rng.random() < 0.3
    sp.meta["rely_on_defaults"] = rng.random() < 0.6        # the builders leave documented-default arguments out
    sp.meta["trap"] = len(trap)

    # ---- initial distribution -----------------------------------------------------------------
    k = rng.choice([1, 1, 2, 3])
    k = min(k, n)
    if family in ("proper", "sspneg", "zerocycle") and rng.random() < 0.8:
        nonabs = [j for j in idx if j not in absorbing]
        first = rng.choice(nonabs) if nonabs else rng.choice(idx)
        rest = rng.sample([j for j in idx if j != first], k - 1)
        chosen = [first] + rest
    else:
        chosen = rng.sample(idx, k)
    if trap and rng.random() < 0.7:
        t = rng.choice(sorted(trap))
        if t not in chosen:
            chosen.append(t)
    probs = rand_probs(rng, len(chosen))
    sp.init = [(states[j], p) for j, p in zip(chosen, probs)]
    sp.init_kind = "dict"
    if len(chosen) == 1 and rng.random() < 0.5:
        sp.init_kind = rng.choice(["det", "uniform"])
    elif allow_zero_entries and rng.random() < 0.15:
        others = [t for t in states if t not in [x for x, _ in sp.init]]
        if others:
            sp.init.append((rng.choice(others), 0.0))
    return sp


# ---------------------------------------------------------------------------------------------
def closure(sp, expand_absorbing=False, absorbing=None):
    """States reachable with positive probability from the initial support; successors of
    (flagged) absorbing states are not expanded."""
    absorbing = sp.flag if absorbing is None else absorbing
    seen = [s for s, p in sp.init if p > 0]
    seen = list(dict.fromkeys(seen))
    seen_set = set(seen)
    frontier = list(seen)
    while frontier:
        s = frontier.pop()
        if s in absorbing and not expand_absorbing:
            continue
        for a in sp.acts[s]:
            for t, q in sp.P[(s, a)]:
                if q > 0 and t not in seen_set:
                    seen_set.add(t)
                    seen.append(t)
                    frontier.append(t)
    return seen


def restrict_to_closure(sp, rng, drop_outside_zero=True):
    """For inferred-state-list presentations: drop unreachable states and retarget successors
    of live absorbing states (and explicit zero-probability entries stay as they are) so the
    MDP is closed over the inferred list."""
    keep = closure(sp)
    keepset = set(keep)
    for s in keep:
        if s in sp.flag:
            for a in sp.acts[s]:
                new = []
                for t, q in sp.P[(s, a)]:
                    if q > 0 and t not in keepset:
                        t2 = rng.choice(keep)
                        sp.R[(s, a, t2)] = sp.R.get((s, a, t), 0.0)
                        t = t2
                    new.append((t, q))
                # merge duplicates
                merged = {}
                for t, q in new:
                    merged[t] = merged.get(t, 0.0) + q
                sp.P[(s, a)] = list(merged.items())
                if sp.kind[(s, a)] != "dict" and len(merged) != len(new):
                    sp.kind[(s, a)] = "dict"
    if drop_outside_zero:
        for key in list(sp.P):
            if key[0] in keepset:
                sp.P[key] = [(t, q) for t, q in sp.P[key] if q > 0 or t in keepset]
        sp.init = [(s, p) for s, p in sp.init if p > 0 or s in keepset]
    sp.meta["dropped_unreachable"] = len(sp.states) - len(keep)
    sp.states = [s for s in sp.states if s in keepset]
    for key in [k for k in sp.P if k[0] not in keepset]:
        del sp.P[key]
    for key in [k for k in sp.R if k[0] not in keepset]:
        del sp.R[key]
    for s in [s for s in sp.acts if s not in keepset]:
        del sp.acts[s]
    sp.flag = {s for s in sp.flag if s in keepset}
    return sp


def random_policy(rng, sp, deterministic=None, prefer_zero_reward=False):
    """Row-stochastic table on available actions (with zeros). prefer_zero_reward: where a state has an
    action whose every positive-probability outcome pays 0, play only such actions (drives the policy
    chain into zero-reward closed classes, the delicate case of undiscounted evaluation)."""
    pol = {}
    det = rng.random() < 0.3 if deterministic is None else deterministic
    for s in sp.states:
        acts = sp.acts[s]
        if prefer_zero_reward and rng.random() < 0.8:
            zero = [a for a in acts if all(sp.reward(s, a, t) == 0 for t, q in sp.P[(s, a)] if q > 0)]
            if zero:
                acts = tuple(zero)
        if det or len(acts) == 1 or rng.random() < 0.3:
            a = rng.choice(acts)
            pol[s] = {a: 1.0}
        else:
            k = rng.randint(1, len(acts))
            chosen = rng.sample(acts, k)
            probs = rand_probs(rng, k)
            pol[s] = dict(zip(chosen, probs))
    return pol
