"""Seeded POMDP spec generator (no msdm imports): an MDP Spec with uniform action sets plus an
action-dependent observation kernel O[(a, ns)] -> [(o, p)] (zero entries explicit or omitted)."""
from mon.gen import mdp as G


def random_pomdp(rng, n_max=4, a_max=3, o_max=3, special=None, allow_live_absorbing=True,
                 allow_ghost_obs=False, gamma=None, min_states=2, reward_sign=None, tiny_probs=False):
    sp = G.random_spec(rng, "any", n_max=n_max, a_max=a_max, uniform_actions=True, min_states=min_states,
                       allow_zero_entries=True, allow_live_absorbing=allow_live_absorbing,
                       label_kind=rng.choice(["int", "str", "tuple", "mixed"]),
                       gamma=gamma if gamma is not None else rng.choice([0.5, 0.8, 0.9, 0.95]),
                       allow_dup_actions=False, reward_sign=reward_sign)
    G.restrict_to_closure(sp, rng)
    special = special if special is not None else rng.choice([None, None, None, "full", "blind", "det"])
    sp.meta["special"] = special
    acts = sp.action_universe()
    if special == "full":
        obs = [("obs", i) for i in range(len(sp.states))]
    elif special == "blind":
        obs = ["o"]
    else:
        k = rng.randint(1, o_max)
        obs = rng.sample(["o0", "o1", "o2", 0, 1, ("z",)], k)
    sp.obs = list(obs)
    sp.O = {}
    for a in acts:
        for j, ns in enumerate(sp.states):
            if special == "full":
                lst = [(obs[j], 1.0)]
            elif special == "blind":
                lst = [(obs[0], 1.0)]
            elif special == "det":
                lst = [(rng.choice(obs), 1.0)]
            else:
                k = rng.randint(1, len(obs))
                chosen = rng.sample(obs, k)
                probs = G.rand_probs(rng, k)
                if tiny_probs and k == 2 and rng.random() < 0.3:
                    # a rare but possible observation (sensor false-alarm rate): exact floats 1-d, d
                    d = rng.choice([2.0 ** -30, 1e-9, 1e-12, 2.0 ** -50])
                    probs = [1.0 - d, d]
                    sp.meta["tiny_obs"] = True
                lst = list(zip(chosen, probs))
                if rng.random() < 0.3:
                    others = [o for o in obs if o not in chosen]
                    if others:
                        lst.insert(rng.randrange(len(lst) + 1), (rng.choice(others), 0.0))
            if allow_ghost_obs and rng.random() < 0.15:
                lst.insert(rng.randrange(len(lst) + 1), ("GHOST-OBS", 0.0))
                sp.meta["ghost_obs"] = True
            sp.O[(a, ns)] = lst
    if special == "det":
        for key, lst in list(sp.P.items()):
            tgt = max(lst, key=lambda x: x[1])[0]
            sp.P[key] = [(tgt, 1.0)]
            sp.kind[key] = "dict"
        G.restrict_to_closure(sp, rng)
        for key in [k for k in sp.O if k[1] not in set(sp.states)]:
            del sp.O[key]
    sp.meta["n_obs"] = len(obs)
    return sp


def obs_prob(sp, a, ns, o):
    return sum(p for oo, p in sp.O[(a, ns)] if oo == o)


def emitted_observations(sp):
    out = []
    for lst in sp.O.values():
        for o, p in lst:
            if p > 0 and o not in out:
                out.append(o)
    return out
