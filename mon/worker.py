"""Shard worker: python -m mon.worker <Cnn> <tier> <seed> <shard> <nshards> <ncases> <outfile>

Runs every case index i with i % nshards == shard, one JSON record per line (flushed), so a
killed shard still leaves what it observed."""
import sys
import os
import json
import random
import signal
import time
import traceback
import warnings
import importlib

from mon.case import Case, CaseTimeout, Inconclusive, Precondition


def _alarm(signum, frame):
    raise CaseTimeout()


def run_one(mod, prop, tier, seed, index, verbose=False):
    case_seed = f"{prop}:{seed}:{index}"
    rng = random.Random(case_seed)
    # components that are called WITHOUT a seed draw from the global generators: pin those per case, so that a replay
    # sees the same draws (checks that watch the global generators set their own states afterwards)
    random.seed(case_seed + ":global")
    try:
        import numpy as _np
        _np.random.seed(int.from_bytes(case_seed.encode(), "little") % (2 ** 32))
    except Exception:
        pass
    case = Case(prop, index, case_seed, tier)
    timeout = getattr(mod, "CASE_TIMEOUT", 60)
    t0 = time.time()
    signal.signal(signal.SIGALRM, _alarm)
    signal.setitimer(signal.ITIMER_REAL, timeout)
    try:
        mod.run_case(case, rng)
    except CaseTimeout:
        case.verdict, case.reason = "inconclusive", "watchdog"
    except Inconclusive as e:
        case.verdict, case.reason = "inconclusive", e.reason
    except Precondition as e:
        case.verdict, case.reason = "precondition", e.reason
    except Exception as e:
        case.verdict = "harness-error"
        case.reason = f"{type(e).__name__}: {e}"
        case.notes.append(traceback.format_exc()[-3000:])
    finally:
        signal.setitimer(signal.ITIMER_REAL, 0)
    rec = case.record()
    if index >= 48 and not rec["violations"]:
        rec["sample"] = None          # samples of the first cases are enough for the evidence file
    rec["wall_s"] = round(time.time() - t0, 4)
    return rec


def main(argv):
    prop, tier, seed, shard, nshards, ncases, out = argv
    seed, shard, nshards, ncases = int(seed), int(shard), int(nshards), int(ncases)
    warnings.simplefilter("ignore")
    import numpy as np
    np.seterr(all="ignore")
    mod = importlib.import_module(f"mon.checks.{prop.lower()}")
    if hasattr(mod, "worker_init"):
        mod.worker_init(tier)
    with open(out, "w") as f:
        for i in range(shard, ncases, nshards):
            rec = run_one(mod, prop, tier, seed, i)
            f.write(json.dumps(rec) + "\n")
            f.flush()
    return 0


if __name__ == "__main__":
    sys.exit(main(sys.argv[1:]))
