"""Regenerates /verif/MANIFEST.json from the table below (python -m mon.mkmanifest)."""
import json
import os

VERIF = os.path.dirname(os.path.dirname(os.path.abspath(__file__)))

# property -> (technique, level text, level note, design ref)
CLAIMED = {
    "C01": ("runtime monitoring: boundary recorder on ValueIteration/PolicyIteration.plan_on + array purity sentinel, oracle = independent reference V*/Q* with bounds derived from the coded stopping rule, over seeded random MDP families",
            "Held-on-K-executions evidence: every generated MDP/config is solved by the real code and compared with an independent reference solver (values, absorbing/placeholder clauses, tie-sharing policy, exact return of the returned policy, agreement of the two VI versions, batch entry point). Exploration is the right level: the property quantifies over all finite MDPs and only sampled executions can be observed.",
            "trusts mon/ref/mdp.py (plain numpy VI + exact policy evaluation, certified to 1e-9) and float64; small models (<=12 states)", "§4 C01"),
    "C02": ("runtime monitoring: boundary recorder on TabularPolicy.evaluate_on / Policy.to_tabular + purity sentinel; oracle = independent linear-solve / SCC policy evaluation plus Bellman-expectation self-consistency of msdm's own numbers",
            "Held-on-K-executions: each generated (MDP, stochastic policy) pair is evaluated by the real code and compared entry-wise (state/action values, exact -inf pattern, occupancies, initial value) with an independent reference. Exploration is the right level for an all-inputs numerical property.",
            "trusts mon/ref/mdp.py (numpy solve + own Tarjan SCC) and float64 with condition-number-scaled tolerances", "§4 C02"),
    "C06": ("runtime monitoring: boundary recorder on every array/table accessor, from_matrices and the quick wrappers; element-wise oracle against the spec's functions; reachability oracle for inferred lists and max_states",
            "Held-on-K-executions: every listed view of every generated MDP is compared element-wise with the functions it was built from, and rebuilt/wrapped copies are compared bitwise and by planning result. Exploration: the property quantifies over all MDP definitions and label kinds.",
            "trusts the generator's spec dictionaries and mon/ref/mdp.Arr; known findings C06 (ii)/(iii) are mechanism-keyed in known_findings.json", "§4 C06"),
    "C03": ("runtime monitoring: msdm's own LAOStarEventListener hook asserts the upper-bound invariant online on every node at every main-loop iteration; boundary recorder on the result; oracle = reference V* + exact evaluation of the returned policy walked over its own reachable set",
            "Held-on-K-executions over generated MDPs x admissible heuristics x seeds x ordering flags. Exploration: all-inputs/all-histories property, only sampled runs are observable.",
            "trusts mon/ref/mdp.py; MDPs closed and proper over the whole list; flagged absorbing states at gamma=1; known finding C03-inner-policy-iteration-cycles-between-tied-actions-at-large-magnitudes is keyed on the call site and facts computed from the reference solution", "§4 C03"),
    "C04": ("runtime monitoring: msdm's own LRTDPEventListener hook checks the whole value table against V* after every time step and trial (online upper-bound invariant); boundary recorder; oracle = reference V*, expected steps and exact return of the returned policy",
            "Held-on-K-executions (sampled trial histories = seeds). Exploration: the property quantifies over all histories; termination is restated as bounded progress under a watchdog (inconclusive, never a violation).",
            "trusts mon/ref/mdp.py; res.converged is not consulted", "§4 C04"),
    "C05": ("runtime monitoring: boundary recorder on AStarSearch/BreadthFirstSearch.plan_on (results, internal assertions); oracle = own Dijkstra/BFS-level computation with exact integer costs, path validated step by step against the graph and the returned policy",
            "Held-on-K-executions over generated digraphs x heuristics x tie-breaking x seeds x 6 presentations (incl. models rebuilt from 0/1 arrays) plus dense graphs of 150-450 nodes. Exploration: all-inputs property.",
            "trusts the 40-line Dijkstra/BFS reference in the check; heuristics finite and consistent by construction", "§4 C05"),
    "C11": ("runtime monitoring: boundary recorder on every distribution operation for every kind (dict/uniform/deterministic/softmax/table-row, mixed-kind operands) + sample monitor (every seeded draw must have positive probability, equal seeds give equal sequences); oracle = the laws computed on plain weight dictionaries",
            "Held-on-K-executions of the probability laws over generated distributions incl. zero-probability and unnormalised entries. Exploration: all-inputs property.",
            "float64 reference with math.fsum, 1e-12 relative tolerance", "§4 C11"),
    "C12": ("runtime monitoring: boundary recorder on __getitem__/get/keys/items/len/action_dist of real Table/ProbabilityTable/StateTable/StateActionTable/TabularPolicy objects; oracle = table_resolve, an independent nested-dictionary model with the outermost-element priority rule",
            "Held-on-K-executions over generated tables with deliberately colliding key spaces: all full keys, nested keys, outer-key lists, slices/ellipses and foreign keys are resolved by both the real table and the model.",
            "trusts the 60-line table_resolve model in the check", "§4 C12"),
    "C07": ("runtime monitoring: boundary recorder on state_estimator(_vec), predictive_observation_dist/_vec, observation_matrix, BeliefMDP.* and next_agentstate over ALL (belief, action, observation) triples of each generated POMDP incl. impossible observations; oracle = independent dictionary Bayes filter",
            "Held-on-K-executions: every filter update / predictive distribution / belief-MDP transition produced by the real code is compared with an independent Bayes computation. Exploration: all-inputs property.",
            "trusts mon/ref/bayes.py (40 lines) and float64 at 1e-12", "§4 C07"),
    "C10": ("runtime monitoring: TDLearningEventListener probe reads (s,a,r,ns,na) and the live Q-table(s) from the learner's locals at every time step, validates the step against the model and compares the whole live table with a shadow table advanced by the published update rule (online reference-model monitor); final table, bounds and greedy policy checked at the boundary",
            "Held-on-K-executions over sampled histories (seeds) of all four learners. Exploration: the property quantifies over all experienced histories.",
            "shadow table implements the rules as published in the class docstrings; float64 at 1e-12", "§4 C10"),
    "C17": ("runtime monitoring: RMAXEventListener probe validates every experienced step against the model and records the experience; oracle rebuilds the empirical model from the first m samples of each pair and checks optimism / empirical Bellman equation / greedy policy on the returned Q",
            "Held-on-K-executions over sampled histories (seeds), thresholds and episode counts. Exploration: all-histories property.",
            "rmax taken from np.max(mdp.reward_matrix) (the algorithm's asserted precondition); float64", "§4 C17"),
    "C14": ("runtime monitoring: trace checker over every trajectory returned by Policy.run_on / POMDPPolicy.run_on (step validity against the model, chaining, agent-state update, stop condition); Policy.run_on wrapped as called inside Policy.evaluate_on to capture its own roll-outs; averages recomputed from the captured traces",
            "Held-on-K-executions over sampled histories (seeds), caps and policies. Exploration: all-histories property.",
            "model = generator spec dictionaries; a belief-tracking policy is only started from states its initial belief allows", "§4 C14"),
    "C15": ("runtime monitoring: boundary recorder on augment() for sampled/all subsets of overridden components; trajectory checker on Option.run_on; Option.run_on wrapped as called by SemiMarkovDecisionProcess.run_simulations to capture its own simulations, outcome distribution recomputed from the captures with the base discount; sub-task plan vs reference solution",
            "Held-on-K-executions over generated base MDPs, override subsets, options, step limits and seeds. Exploration: all-inputs/all-histories property.",
            "trusts mon/ref/mdp.py for the sub-task solution; roll-out step validity itself is C14's subject", "§4 C15"),
    "C16": ("runtime monitoring: boundary recorder on MultichainPolicyIteration.plan_on gated on `converged`, source-free probe on the algorithm's own rank test (independent_row_indices: rows kept vs matrix_rank); oracle = reference V* (gamma<1) / optimal multichain gain from Puterman's LP via scipy HiGHS (gamma=1) and exact evaluation (value or gain) of the returned stochastic policy",
            "Held-on-K-executions over generated discounted and average-reward MDPs (unichain, multichain, with absorbing states). Exploration: all-inputs property.",
            "trusts scipy.optimize.linprog and mon/ref/{mdp,gain}.py; tolerance max(1e-6*scale, tie band 1e-5*max|Q|)/(1-gamma) (normal equations; the improvement step's own isclose test)", "§4 C16"),
    "C19": ("runtime monitoring: boundary recorder on entropy_regularized_policy_iteration and the planner wrapper, gated on `converged`; oracle = soft Bellman fixed-point clauses (one-step look-ahead, prior-weighted softmax, log-sum-exp) with tolerances derived from the coded convergence test, plus the quantitative hard/soft bracket against a reference value iteration",
            "Held-on-K-executions over generated tensors, weights (scalar / per-state), priors and flags. Exploration: all-inputs property.",
            "float64; weight tensor is float32 by construction (term 2*2^-24*max|q/w| in the tolerance)", "§4 C19"),
    "C18": ("runtime monitoring: boundary recorder on TabularGridGame.next_state_dist/joint_rewards/is_terminal over all explored non-terminal states x all 25 joint actions of each generated layout, physical-constraint oracle computed from the generated layout; boundary recorder on DiscreteFactorTable &, |, *, /, Z, normalize, marginalize / [] (callable and expression projections), probs and the read accessors with a reference natural join on flattened nested rows, and an operand-purity sentinel (rows and weights of both operands compared before / after, product recomputed at the end)",
            "Held-on-K-executions; per layout the (explored state, joint action) space is enumerated completely in the thorough tier (capped in quick). Exploration overall: layouts and tables are sampled.",
            "coordinates x=column, y=height-1-row (verified against the initial state); fences judged only for normalisation", "§4 C18"),
    "C20": ("runtime monitoring: boundary recorder on every model function over the whole state x action (x observation) space of each generated domain instance, array builders and a ValueIteration planning probe; oracle = normalisation / closure / finiteness clauses and a reference of the plain grid-world physics",
            "Held-on-K-executions over generated layouts and parameter settings of the six built-in domains; each instance is checked exhaustively over its own state/action space. Exploration: layouts/parameters are sampled.",
            "coordinates x=column, y=height-1-row; layouts contain >=1 start cell; known finding C20-absorbing-cell-cuts-the-grid is mechanism-keyed", "§4 C20"),
    "C13": ("runtime monitoring: RNG-state sentinel (hash of the global random / numpy / torch generator states before vs after every call), canonical result digests compared across three prior global-generator states in one process and across separate processes started with different PYTHONHASHSEED",
            "Held-on-K-executions over 17 randomised components x generated string-labelled problems x seeds (incl. 0) x prior global states x interpreter hash seeds. Exploration: seeds/problems/hash seeds are sampled.",
            "digest = sha1 of a canonical repr (floats by repr, mappings sorted by repr); a component that reads a global generator WITHOUT disturbing it and by luck produces the same digest three times would be missed", "§4 C13"),
    "C08": ("runtime monitoring: pointbasedvalueiteration.point_based_value_iteration wrapped source-free to capture the belief set the returned alpha vectors were computed on and the number k of back-ups; boundary recorder on policy.value/action_value/action_dist; oracle = independent exact expectimax bracket [L,U] of V*(b) with sound leaf bounds, belief-weighted reference MDP action values, point-based residual and k-step exactness on successor-closed belief sets",
            "Held-on-K-executions over generated POMDPs, thresholds, horizons, budgets and beliefs. Exploration: all-inputs property; V* is only bracketed, never computed exactly.",
            "trusts mon/ref/pomdp.py (expectimax on unnormalised beliefs) and mon/ref/mdp.py; slack uses k observed at run time", "§4 C08"),
    "C09": ("runtime monitoring: boundary recorder on stochastic_fsc_policy_evaluation_exact; the same function wrapped as seen from the bounded-policy-iteration module records every value table inside one train_on (monotonicity); StochasticFiniteStateController driven along all action/observation histories up to length 3 and its agent state compared with the hidden-node forward algorithm; reference cross-product solve with absorbing states terminal; source-free probe on scipy.optimize.linprog during bounded policy iteration (facts for exceptions raised by its own assertions)",
            "Held-on-K-executions over generated POMDPs, controllers, histories and learner seeds. Exploration: all-inputs / all-histories property.",
            "trusts mon/ref/fsc.py and mon/ref/pomdp.py; known findings C09-fsc-evaluation-ignores-absorbing-states, C09-bpi-accepts-lp-solutions-at-solver-noise-level, C09-bpi-does-not-check-the-lp-solver's-status and C09-bpi-improvement-step-not-monotone-at-long-horizons are mechanism-keyed", "§4 C09"),
}

PENDING_REASON = "check not built yet in this round (design in DESIGN.md §4); not claimed until its monitor exists and is silent on the unchanged tree"


def main():
    props = [json.loads(l) for l in open(os.path.join(VERIF, "properties.jsonl"))]
    checks, na = [], []
    for p in props:
        pid = p["id"]
        if pid in CLAIMED:
            tech, text, note, ref = CLAIMED[pid]
            checks.append({
                "property_id": pid,
                "quick_cmd": f"./check {pid} --tier quick",
                "thorough_cmd": f"./check {pid} --tier thorough",
                "evidence_file": f"/verif/evidence/{pid}.json",
                "replay_cmd_template": f"./check {pid} --replay {{path}}",
                "engine": "mon",
                "level_claimed": {"category": "exploration", "text": text, "design_ref": ref},
                "level_note": note,
                "technique": tech,
            })
        else:
            na.append({"property_id": pid, "reason": PENDING_REASON})
    man = {
        "version": 1,
        "setup_cmd": "PYTHONPATH=/repo:/verif /venv/bin/python -m mon.selftest",
        "hooks": {
            "guard": "MSDM_VERIF",
            "enable": "no source hooks are needed: monitors are attached from the harness (wrapping module-level functions, msdm's own event listeners, boundary recording); checks import /repo's working tree via PYTHONPATH=/repo and set MSDM_VERIF=1",
            "baseline_off_cmd": "cd /repo && /venv/bin/python -m pytest -ra -q -p no:cacheprovider --timeout=900 --continue-on-collection-errors",
            "source_commits": [],
            "add_only": True,
        },
        "engines": [{"name": "mon", "path": "/verif/mon", "serves_properties": sorted(CLAIMED),
                     "kind_free_text": "runtime monitoring harness: seeded workload generators, monitors on the real msdm code (call/return recorders, listener probes, RNG/purity sentinels), independent reference oracles, sharded runner, mechanism-keyed known-findings classifier"}],
        "checks": checks,
        "not_applicable": na,
        "notes": "All checks: ./check <id> --tier quick|thorough ; honours VERIF_SEED / VERIF_TIER ; exit 0 held / 1 VIOLATION / 2 inconclusive. Known findings: /verif/known_findings.json (mechanism keyed, read-only at run time).",
    }
    with open(os.path.join(VERIF, "MANIFEST.json"), "w") as f:
        json.dump(man, f, indent=1)
        f.write("\n")


if __name__ == "__main__":
    main()
