"""Known-findings classifier. The committed file /verif/known_findings.json lists open findings
and 'fixed:' records; it is never written at run time. A violation is a KNOWN finding only if an
*open* entry for the same property names a mechanism whose structural predicate (recomputed
here from the facts the check recorded about the violating case) holds. 'fixed' entries never
match, so a fixed defect that returns is reported as a VIOLATION."""
import json
import os

VERIF = os.path.dirname(os.path.dirname(os.path.abspath(__file__)))
PATH = os.path.join(VERIF, "known_findings.json")


def load():
    try:
        with open(PATH) as f:
            return json.load(f).get("findings", [])
    except FileNotFoundError:
        return []


# mechanism name -> predicate(violation, record)
CLASSIFIERS = {}


def mechanism(name):
    def deco(fn):
        CLASSIFIERS[name] = fn
        return fn
    return deco


def classify(prop, violation, record, entries):
    for e in entries:
        if e.get("property") != prop or e.get("status") != "open":
            continue
        fn = CLASSIFIERS.get(e.get("mechanism"))
        if fn is None:
            continue
        try:
            if fn(violation, record):
                return e["mechanism"]
        except Exception:
            continue
    return None


def describe(mech, entries):
    for e in entries:
        if e.get("mechanism") == mech:
            return e.get("description", "")[:200]
    return ""


# ---- classifiers are registered below as findings are confirmed -----------------------------


@mechanism("C01-pi-undiscounted-zero-reward-closed-set")
def _c01_pi_zero_cycle(v, rec):
    """PolicyIteration, gamma = 1, the MDP has a non-empty zero-reward closed set among
    non-absorbing states, and PI's answer is *below* optimal (value clauses) / its policy keeps a
    suboptimal action (policy clauses)."""
    f = v.get("facts", {})
    if not str(f.get("algorithm", "")).startswith("pi"):
        return False
    if f.get("gamma") != 1.0 or not f.get("zero_closed_set"):
        return False
    c = v["clause"]
    if c in ("state_value-outside-bound", "action_value-outside-bound"):
        return bool(f.get("below_opt"))
    return c in ("suboptimal-action-in-policy", "returned-policy-not-optimal",
                 "optimal-action-missing-from-policy")


@mechanism("C06-stray-absorbing-successor-outside-list")
def _c06_stray(v, rec):
    """KeyError from an array builder whose key is a positive-probability successor of a flagged
    absorbing state that is not otherwise reachable (in closure-with-absorbing-expanded minus the
    inferred list)."""
    f = v.get("facts", {})
    if not v["clause"].startswith("exception:") or f.get("exc_type") != "KeyError":
        return False
    if not any("tabularmdp.py" in w for w in f.get("where", [])):
        return False
    outside = f.get("outside_list_but_reachable_via_absorbing") or []
    return any(f.get("exc_msg") == o for o in outside)


@mechanism("C06-initial-absorbing-state-expanded")
def _c06_init_abs(v, rec):
    """Inferred state list = closure plus exactly the states reachable only by expanding an
    *initial* absorbing state."""
    f = v.get("facts", {})
    return v["clause"] in ("inferred-state_list!=closure", "max_states:not-prefix-closed") \
        and bool(f.get("extra_only_from_initial_absorbing"))


@mechanism("C16-discounted-near-singular-rank-test")
def _c16_rank(v, rec):
    """gamma < 1, converged=True, and independent_row_indices() was OBSERVED (probe on the function, last call of
    the run) to keep fewer rows of (gamma*P - I) than are linearly independent (np.isclose(det, 0) with an absolute
    tolerance judges an independent row dependent), so the linear system that produced the reported values was
    under-determined. (A clearly non-zero reported gain - a discounted problem has gain 0 - is the usual symptom,
    but the values can be off with a tiny gain too.)"""
    f = v.get("facts", {})
    return (f.get("gamma", 1.0) < 1.0 and (f.get("rank_test_dropped_rows") or 0) >= 1
            and v["clause"] in ("state_value!=optimal-discounted-value", "returned-policy-not-value-optimal"))


@mechanism("C20-absorbing-cell-cuts-the-grid")
def _c20_stray(v, rec):
    """Built-in domains that keep moving out of their absorbing cells (HeavenOrHell, WindyGridWorld):
    a cell reachable only THROUGH an absorbing cell is a positive-probability successor outside the
    inferred (absorbing-not-expanded) state list -- the C06-stray-absorbing mechanism on a built-in
    domain. Matches only if the offending successor lies in closure-with-absorbing-expanded minus the
    list, and (for the closure clause) the source state is absorbing."""
    f = v.get("facts", {})
    outside = f.get("outside_list_but_reachable_via_absorbing") or []
    if f.get("domain") not in ("HeavenOrHell", "WindyGridWorld"):
        return False
    if v["clause"] == "successor-outside-state_list":
        return bool(f.get("state_is_absorbing")) and f.get("successor") in outside
    if v["clause"].startswith("exception:") and f.get("exc_type") == "KeyError":
        return any("tabularmdp.py" in w or "tabularpomdp.py" in w for w in f.get("where", [])) and f.get("exc_msg") in outside
    return False


@mechanism("C03-inner-policy-iteration-cycles-between-tied-actions-at-large-magnitudes")
def _c03_pi_cycle(v, rec):
    """LAOStar.plan_on raises AssertionError from `assert converged` at the end of ExplicitStateGraph._policy_iteration (that
    call site, nothing else), on a problem in which two optimal actions of a state tie exactly (reference action values equal to
    1e-12 relative) OR whose optimal values are of order 1e6 or more: the strict argmax improvement step flips between actions
    whose evaluated values differ only by rounding noise."""
    f = v.get("facts", {})
    if not v["clause"].startswith("exception:LAOStar.plan_on") or f.get("exc_type") != "AssertionError":
        return False
    where = f.get("where", [])
    if not where or "_policy_iteration" not in where[-1]:
        return False
    return bool(f.get("exact_tie_between_optimal_actions")) or float(f.get("value_magnitude", 0.0)) >= 1e6


@mechanism("C09-bpi-improvement-step-not-monotone-at-long-horizons")
def _c09_long_horizon(v, rec):
    """FSCBoundedPolicyIteration.train_on raises AssertionError from its own assert_value_improvement (innermost msdm frame)
    on a POMDP with a discount rate of .999 or more, after an LP that ended with status 0."""
    f = v.get("facts", {})
    if not v["clause"].startswith("exception:FSCBoundedPolicyIteration.train_on") or f.get("exc_type") != "AssertionError":
        return False
    where = f.get("where", [])
    if not where or "assert_value_improvement" not in where[-1]:
        return False
    return float(f.get("gamma", 0.0)) >= 0.999 and f.get("last_lp_status") == 0


@mechanism("C09-bpi-does-not-check-the-lp-solver's-status")
def _c09_lp_status(v, rec):
    """FSCBoundedPolicyIteration.train_on raises TypeError inside its scipy_lp wrapper (it negates `res.ineqlin.marginals`, which
    is None), and the probe on scipy.optimize.linprog saw the last LP end with a non-zero status (no solution returned)."""
    f = v.get("facts", {})
    if not v["clause"].startswith("exception:FSCBoundedPolicyIteration.train_on") or f.get("exc_type") != "TypeError":
        return False
    if not any("scipy_lp" in w for w in f.get("where", [])):
        return False
    return f.get("last_lp_status") not in (None, 0)


@mechanism("C09-bpi-accepts-lp-solutions-at-solver-noise-level")
def _c09_lp_noise(v, rec):
    """FSCBoundedPolicyIteration.train_on raises AssertionError from one of its own consistency assertions (row
    normalisation in improve_node_matrix_constraint / assert_value_improvement), and the last LP solution it was handed
    had its objective or an action weight between numpy.isclose's 1e-8 and the LP solver's 1e-7..1e-6 tolerance band."""
    f = v.get("facts", {})
    if not v["clause"].startswith("exception:FSCBoundedPolicyIteration.train_on") or f.get("exc_type") != "AssertionError":
        return False
    where = " ".join(f.get("where", []))
    if "improve_node_matrix_constraint" not in where and "assert_value_improvement" not in where:
        return False
    return bool(f.get("last_lp_solution_at_solver_noise_level"))


@mechanism("C09-fsc-evaluation-ignores-absorbing-states")
def _c09_abs(v, rec):
    """stochastic_fsc_policy_evaluation_exact (and so the values reported by gradient ascent / bounded
    policy iteration) treat absorbing states as ordinary states: the POMDP has an absorbing state with
    live transitions or rewards, the reported number differs from the reference with episodes ending at
    absorbing states, AND equals the reference computed on the raw dynamics."""
    f = v.get("facts", {})
    c = v["clause"]
    if not ((c.startswith("evaluator") and "!=expected-return" in c) or c.endswith(":reported-value!=exact-evaluation-of-returned-controller")):
        return False
    return bool(f.get("live_absorbing")) and bool(f.get("equals_reference_without_absorption"))
