"""Documented defaults of msdm's public entry points (as in their signatures / docstrings at the pinned commit) and
a helper that makes a workload RELY on them: arguments whose value equals the documented default are left out of the
call (a caller who spells everything out never notices a changed default), and - where the object keeps the setting as
a public attribute - the configuration actually in force is read back and compared with the documented value."""
INF_STEPS = 2 ** 30

DOC = {
    "ValueIteration": dict(max_iterations=100000, max_residual=1e-5, undefined_value=0, _version="vectorized"),
    "PolicyIteration": dict(max_iterations=100000, undefined_value=0),
    "LAOStar": dict(max_lao_star_iterations=100000, dynamic_programming_iterations=100, randomize_action_order=True,
                    randomize_nextstate_order=True, event_listener_class=None, seed=None),
    "LRTDP": dict(bellman_error_margin=0.01, iterations=INF_STEPS, randomize_action_order=False, max_trial_length=None,
                  event_listener_class=None, seed=None),
    "AStarSearch": dict(seed=None, randomize_action_order=False, tie_breaking_strategy="lifo", assert_monotone_heuristic=True),
    "BreadthFirstSearch": dict(seed=None, randomize_action_order=False),
    "PointBasedValueIteration": dict(min_belief_expansions=100, max_belief_expansions=100000, value_convergence_epsilon=0.01,
                                     horizon=None),
    "TD": dict(episodes=100, step_size=0.1, rand_choose=0.05, softmax_temp=0.0, initial_q=0.0, seed=None),
    "RMAX": dict(episodes=100, rmax=1.0, num_transition_samples=3, bellman_convergence_diff=1e-5, seed=None),
    "MultichainPolicyIteration": dict(max_iterations=100000),
    "EntropyRegularizedPolicyIteration": dict(iterations=None, entropy_weight=1, policy_prior=None),
    "FSCBoundedPolicyIteration": dict(iterations=100, seed=None, convergence_diff=1e-5),
    "FSCGradientAscent": dict(iterations=5000, learning_rate=0.1, seed=None),
    "SemiMarkovDecisionProcess": dict(include_mdp_actions=False, seed=None),
    "PlanToSubgoalOption": dict(include_mdp_absorbing_states=False, name=None, max_steps=1000,
                                max_nonterminal_pseudoreward=float("inf")),
    "QuickMDP": dict(discount_rate=1.0),
    "run_on": dict(max_steps=INF_STEPS),
    "evaluate_on": dict(n_simulations=100, max_steps=INF_STEPS),
    "GridWorld": dict(feature_rewards=None, absorbing_features=("g",), wall_features=("#",), default_features=(".",),
                      initial_features=("s",), step_cost=-1, success_prob=1.0, discount_rate=1.0),
    "WindyGridWorld": dict(feature_rewards=None, step_cost=-1, wall_bump_cost=-1, wind_probability=0.5, discount_rate=0.99),
    "TabularGridGame": dict(goal_reward=10, collision_cost=0, step_cost=-1, fence_success_prob=0.5, collision_prob=None),
}

# attribute under which the constructed object keeps a setting, where it differs from the parameter name / is absent
ATTR = {
    ("ValueIteration", "_version"): "_version",
    ("TD", "initial_q"): None,            # stored as a function
    ("LRTDP", "max_trial_length"): None,  # None is stored as float('inf')
    ("FSCBoundedPolicyIteration", "seed"): None,   # None means "draw one": the constructor stores the drawn seed
    ("FSCGradientAscent", "seed"): None,
    ("GridWorld", "feature_rewards"): None, ("GridWorld", "absorbing_features"): None, ("GridWorld", "wall_features"): None,
    ("GridWorld", "default_features"): None, ("GridWorld", "initial_features"): None,
    ("WindyGridWorld", "feature_rewards"): None,
    ("PlanToSubgoalOption", "name"): None,
}


def same(a, b):
    try:
        if isinstance(a, float) or isinstance(b, float):
            return float(a) == float(b)
    except (TypeError, ValueError):
        pass
    return a == b and type(a) is type(b) or (a == b and not isinstance(a, bool) and not isinstance(b, bool))


def rely_on_defaults(case, rng, name, kwargs, p=0.6):
    """returns (kwargs with documented-default values left out at random, list of the omitted names)"""
    doc = DOC[name]
    out, omitted = {}, []
    for k, v in kwargs.items():
        if k in doc and same(v, doc[k]) and rng.random() < p:
            omitted.append(k)
        else:
            out[k] = v
    if omitted:
        case.count("calls_relying_on_documented_defaults")
    return out, omitted


def in_force(case, name, obj, omitted=None, passed=None, **facts):
    """the setting the object reports for an omitted argument is the documented default (`passed`: the keyword
    arguments the call did spell out - every other documented parameter counts as omitted)"""
    doc = DOC[name]
    if omitted is None:
        omitted = [k for k in doc if k not in (passed or {})]
    for k in omitted:
        attr = ATTR.get((name, k), k)
        if attr is None or not hasattr(obj, attr):
            continue
        got = getattr(obj, attr)
        case.count("defaults_read_back")
        case.check(same(got, doc[k]), "default-in-force-differs-from-the-documented-default",
                   lambda: f"{name}(... {k} left out ...).{attr} = {got!r}; documented default {doc[k]!r}", entry_point=name,
                   parameter=k, **facts)
