"""Read msdm result tables through their public mapping interface into numpy arrays in a given
order. Missing entries (e.g. an action the table does not list) become `default`."""
import numpy as np


def vec(table, S):
    return np.array([float(table[s]) for s in S], dtype=float)


def mat(table, S, A, default=0.0):
    m = np.full((len(S), len(A)), default, dtype=float)
    for i, s in enumerate(S):
        row = table[s]
        try:
            keys = set(row.keys())
        except Exception:
            keys = None
        for j, a in enumerate(A):
            if keys is not None and a not in keys:
                continue
            try:
                m[i, j] = float(row[a])
            except BaseException:
                pass
    return m


def policy_mat(policy, S, A):
    """action_dist(s).prob(a) for all s, a."""
    m = np.zeros((len(S), len(A)))
    for i, s in enumerate(S):
        d = policy.action_dist(s)
        for a, p in d.items():
            m[i, A.index(a)] += p
    return m


class Purity:
    """Purity sentinel: the problem object's cached arrays are bit-identical after a call."""
    NAMES = ("transition_matrix", "reward_matrix", "action_matrix", "state_action_reward_matrix",
             "initial_state_vec", "absorbing_state_vec")

    def __init__(self, mdp):
        self.mdp = mdp
        self.snap = {n: np.array(getattr(mdp, n), copy=True) for n in self.NAMES}
        self.lists = (tuple(mdp.state_list), tuple(mdp.action_list))

    def changed(self):
        out = []
        for n, a in self.snap.items():
            b = getattr(self.mdp, n)
            if a.shape != b.shape or not np.array_equal(a, b, equal_nan=True):
                out.append(n)
        if self.lists != (tuple(self.mdp.state_list), tuple(self.mdp.action_list)):
            out.append("lists")
        return out
