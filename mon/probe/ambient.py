"""Ambient monitors: a pytest plugin (-p mon.probe.ambient) that wraps a few msdm entry points while the
repository's OWN test-suite runs, and checks every observed call against an oracle computed through the
model's functional interface. Test pass/fail is ignored; what counts is what the monitors observed.

AMBIENT_MONITORS = comma list of {sample, rollout, filter, arrays}; AMBIENT_OUT = json path."""
import json
import math
import os
import random

_state = {"events": {}, "violations": []}
_which = set(filter(None, os.environ.get("AMBIENT_MONITORS", "sample,rollout,filter,arrays").split(",")))


def _count(k, n=1):
    _state["events"][k] = _state["events"].get(k, 0) + n


def _fail(clause, detail):
    if len(_state["violations"]) < 50:
        _state["violations"].append({"clause": clause, "detail": detail[:400], "facts": {"ambient": True}})


def _wrap(owner, name, after):
    orig = owner.__dict__[name]

    def wrapper(*a, **k):
        out = orig(*a, **k)
        try:
            after(a, k, out)
        except Exception as e:  # a monitor bug must not change the test's behaviour
            _count("monitor_errors")
            if len(_state.setdefault("monitor_error_samples", [])) < 5:
                _state["monitor_error_samples"].append(f"{name}: {type(e).__name__}: {e}")
        return out
    wrapper.__wrapped__ = orig
    setattr(owner, name, wrapper)


def pytest_configure(config):
    from msdm.core.distributions.distributions import FiniteDistribution
    from msdm.core.distributions.dictdistribution import UniformDistribution, DeterministicDistribution
    from msdm.core.mdp.policy import Policy
    from msdm.core.pomdp.policy import POMDPPolicy
    from msdm.core.pomdp.pomdp import PartiallyObservableMDP
    from msdm.core.mdp.tabularmdp import TabularMarkovDecisionProcess

    if "sample" in _which:
        def after_sample(a, k, out):
            d = a[0]
            kk = k.get("k", 1)
            outs = out if (kk != 1 and isinstance(out, list)) else [out]
            for e in outs:
                _count("samples_observed")
                if not d.prob(e) > 0:
                    _fail("ambient:zero-probability-event-sampled", f"{type(d).__name__}: {e!r} from {dict(d.items())!r}")
            supp = list(d.support)
            if len(supp) == 1 and outs[0] != supp[0]:
                _fail("ambient:one-point-distribution-returned-other-event", repr(outs[0]))
        for cls in (FiniteDistribution, UniformDistribution, DeterministicDistribution):
            if "sample" in cls.__dict__:
                _wrap(cls, "sample", after_sample)

    if "rollout" in _which:
        def after_run_on(a, k, out):
            mdp = k.get("mdp", a[1] if len(a) > 1 else None)
            policy = a[0]
            steps = list(out.steps)
            _count("mdp_rollouts_observed")
            cap = k.get("max_steps", a[3] if len(a) > 3 else int(2 ** 30))
            n = len(steps) - 1
            if n > cap:
                _fail("ambient:rollout-longer-than-cap", f"{n} > {cap}")
            for i in range(n):
                st = steps[i]
                s, act, ns, r = st["state"], st["action"], st["next_state"], st["reward"]
                _count("mdp_steps_observed")
                if mdp.is_absorbing(s):
                    _fail("ambient:rollout-continued-after-absorbing-state", repr(s))
                if not mdp.next_state_dist(s, act).prob(ns) > 0:
                    _fail("ambient:rollout-step-has-zero-probability", f"{s!r},{act!r}->{ns!r}")
                if r != mdp.reward(s, act, ns):
                    _fail("ambient:rollout-reward-differs-from-model", f"{s!r},{act!r},{ns!r}: {r!r}")
                if steps[i + 1]["state"] != ns:
                    _fail("ambient:rollout-steps-do-not-chain", f"step {i}")
                try:
                    if not policy.action_dist(s).prob(act) > 0:
                        _fail("ambient:rollout-action-has-zero-policy-probability", f"{s!r},{act!r}")
                except Exception:
                    _count("policy_prob_unavailable")
            if n < cap and not mdp.is_absorbing(steps[-1]["state"]):
                _fail("ambient:rollout-stopped-before-cap-at-non-absorbing-state", repr(steps[-1]["state"]))
        _wrap(Policy, "run_on", after_run_on)

        def after_pomdp_run_on(a, k, out):
            pomdp = k.get("pomdp", a[1] if len(a) > 1 else None)
            policy = a[0]
            _count("pomdp_rollouts_observed")
            for i in range(len(out) - 1):
                st = out[i]
                _count("pomdp_steps_observed")
                if pomdp.is_absorbing(st.state):
                    _fail("ambient:pomdp-rollout-continued-after-absorbing-state", repr(st.state))
                if not pomdp.next_state_dist(st.state, st.action).prob(st.nextstate) > 0:
                    _fail("ambient:pomdp-rollout-step-has-zero-probability", repr(st))
                if not pomdp.observation_dist(st.action, st.nextstate).prob(st.observation) > 0:
                    _fail("ambient:pomdp-rollout-observation-has-zero-probability", repr(st))
                if st.reward != pomdp.reward(st.state, st.action, st.nextstate):
                    _fail("ambient:pomdp-rollout-reward-differs-from-model", repr(st))
                if out[i + 1].state != st.nextstate:
                    _fail("ambient:pomdp-rollout-states-do-not-chain", f"step {i}")
        _wrap(POMDPPolicy, "run_on", after_pomdp_run_on)

    if "filter" in _which:
        def after_estimator(a, k, out):
            pomdp, b, act, o = a[0], a[1], a[2], a[3]
            _count("filter_updates_observed")
            joint = {}
            for s, ps in b.items():
                if ps == 0:
                    continue
                for ns, pn in pomdp.next_state_dist(s, act).items():
                    joint[ns] = joint.get(ns, 0.0) + ps * pn * pomdp.observation_dist(act, ns).prob(o)
            tot = math.fsum(joint.values())
            got = dict(out.items())
            if tot == 0:
                if any(p > 0 for p in got.values()):
                    _fail("ambient:posterior-not-empty-for-impossible-observation", repr(got))
                return
            for ns in set(joint) | set(got):
                want = joint.get(ns, 0.0) / tot
                if abs(got.get(ns, 0.0) - want) > 1e-9:
                    _fail("ambient:posterior-is-not-bayes-posterior", f"{ns!r}: {got.get(ns, 0.0)!r} vs {want!r}")
                    break
        _wrap(PartiallyObservableMDP, "state_estimator", after_estimator)

    if "arrays" in _which:
        import numpy as np
        prop = TabularMarkovDecisionProcess.__dict__["transition_matrix"]
        fget = prop.fget

        def checked(self):
            fresh = not hasattr(self, "_cached_transition_matrix")
            T = fget(self)
            if fresh:
                try:
                    _count("transition_matrices_observed")
                    S, A = list(self.state_list), list(self.action_list)
                    if T.size <= 200000:
                        for i, s in enumerate(S):
                            acts = list(self.actions(s))
                            for j, act in enumerate(A):
                                if act in acts:
                                    d = self.next_state_dist(s, act)
                                    row = np.array([d.prob(ns) for ns in S], dtype=float)
                                else:
                                    row = np.zeros(len(S))
                                _count("transition_rows_compared")
                                if not np.array_equal(T[i, j], row):
                                    _fail("ambient:transition_matrix-row-differs-from-functions", f"{s!r},{act!r}")
                                    return T
                except Exception as e:
                    _count("monitor_errors")
            return T
        TabularMarkovDecisionProcess.transition_matrix = property(checked)


def pytest_sessionfinish(session, exitstatus):
    out = os.environ.get("AMBIENT_OUT")
    if out:
        with open(out, "w") as f:
            json.dump(_state, f)


def run_ambient(which, tmp, envf, timeout=900):
    """Called from a check's parent phase (thorough tier): run the repository's own test-suite under the
    ambient monitors and return (record, extra coverage)."""
    import subprocess
    import sys
    out = os.path.join(tmp, f"ambient-{'-'.join(sorted(which))}.json")
    env = envf("0")
    env["AMBIENT_MONITORS"] = ",".join(sorted(which))
    env["AMBIENT_OUT"] = out
    cmd = [sys.executable, "-m", "pytest", "-q", "-p", "no:cacheprovider", "-p", "mon.probe.ambient",
           "--timeout=900", "--continue-on-collection-errors", "-x", "--maxfail=1000", "msdm/tests"]
    cmd.remove("-x")
    try:
        p = subprocess.run(cmd, cwd=os.environ.get("VERIF_REPO") or "/repo", env=env, stdout=subprocess.PIPE, stderr=subprocess.STDOUT, timeout=timeout)
        tail = p.stdout.decode()[-300:]
    except subprocess.TimeoutExpired:
        tail = "timeout"
    st = {"events": {}, "violations": []}
    if os.path.exists(out):
        st = json.load(open(out))
    ev = {f"ambient:{k}": v for k, v in st["events"].items()}
    observed = sum(v for k, v in st["events"].items() if k.endswith("_observed"))
    verdict = "violated" if st["violations"] else ("held" if observed > 0 else "inconclusive")
    rec = {"prop": "", "index": -2, "case_seed": "ambient", "family": "ambient-test-suite", "params": {"monitors": sorted(which)},
           "sig": "ambient-" + "-".join(sorted(which)), "nontrivial": observed > 0, "events": ev, "verdict": verdict,
           "reason": None if observed else f"ambient monitors observed nothing: {tail}", "violations": st["violations"],
           "sample": {"ambient_events": st["events"], "pytest_tail": tail[-120:]}, "notes": st.get("monitor_error_samples", [])}
    return rec
