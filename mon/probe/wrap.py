"""probe.wrap: replace a function/method on its defining module or class object, keep the original,
count evaluations, restore on exit. Callers that bound the name earlier bypass the wrapper, which
shows up as zero evaluations (=> inconclusive), never as a pass."""
import contextlib


class Wrapped:
    def __init__(self):
        self.calls = 0
        self.records = []


@contextlib.contextmanager
def wrap(owner, name, after=None, before=None, keep=True):
    orig = owner.__dict__[name] if isinstance(owner, type) else getattr(owner, name)
    raw = orig
    w = Wrapped()

    def wrapper(*args, **kwargs):
        w.calls += 1
        if before is not None:
            before(args, kwargs)
        try:
            out = raw(*args, **kwargs)
        except BaseException as e:
            if after is not None:
                after(args, kwargs, None, e)
            raise
        if after is not None:
            after(args, kwargs, out, None)
        return out
    wrapper.__wrapped__ = raw
    setattr(owner, name, wrapper)
    try:
        yield w
    finally:
        setattr(owner, name, orig)
