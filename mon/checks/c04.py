"""C04 — LRTDP stays an upper bound and ends within the error margin of optimal.
Monitor: msdm's own LRTDPEventListener hook: after every time step and every trial the whole
value table is compared with V* online (the 'never fall below' clause is about all times);
boundary recording of the result. Oracle: reference V*, expected steps of the returned policy."""
import numpy as np

from mon.case import Inconclusive
from mon.gen import mdp as G
from mon.gen.heur import make_heuristic
from mon.ref import mdp as Rf

PROP = "C04"
CASES = {"quick": 1600, "thorough": 60000}
CASE_TIMEOUT = 60
REQUIRED = ["lrtdp_calls", "listener_timesteps", "listener_trials", "values_checked_online"]
RULE = ("random proper MDP specs (gamma in {.5,.9,.99,1}; initial mass on absorbing states; live absorbing "
        "states) x admissible heuristics (non-zero at absorbing states on purpose) x error margins "
        "{1e-1,1e-2,1e-4} x seeds x randomize_action_order. distinct = structural signature incl. heuristic "
        "kind/margin/seed; non-trivial = at least one trial with >=1 time step and a branching MDP.")
ASSUMPTIONS = ["reference V* certified to 1e-9; expected steps from an exact linear solve",
               "res.converged is not consulted (only set on the non-converged path)",
               "flagged absorbing states only; MDP closed and proper over the whole list"]


def _shortcut_corridor(case, rng):
    """HUNDREDS of states handled in one run: a corridor of 260-350 cells (each step costs 1); the first cells also offer a "shortcut"
    into a side cell from which the goal costs 100 more than along the corridor, the later cells a slower step. The heuristic is exact
    on the corridor and optimistic by 100 in the side cells, so at those cells the two actions tie in the upper bound until the side
    cell has been looked at. Whatever order
    the actions are tried in, the returned policy reaches the goal at the optimal cost (the reference is the corridor length)."""
    from msdm.algorithms.lrtdp import LRTDP
    from msdm.core.mdp.mdp import MarkovDecisionProcess
    from msdm.core.distributions import DictDistribution
    n_tie, n_tail = rng.choice([(60, 200), (150, 150), (100, 250)])
    n = n_tie + n_tail
    GOAL = ("goal", 0)

    class Corridor(MarkovDecisionProcess):
        discount_rate = 1.0
        def initial_state_dist(self_): return DictDistribution({("c", 0): 1.0})
        def actions(self_, s):
            if s[0] == "c":
                return ("ahead", "shortcut") if s[1] < n_tie else ("ahead", "slow")
            return ("on",)
        def next_state_dist(self_, s, a):
            if s[0] == "c":
                if a == "shortcut":
                    return DictDistribution({("t", s[1]): 1.0})
                return DictDistribution({(("c", s[1] + 1) if s[1] + 1 < n else GOAL): 1.0})
            return DictDistribution({GOAL: 1.0})
        def reward(self_, s, a, ns):
            if s[0] == "c":
                return -2.0 if a == "slow" else -1.0
            return -float(n - s[1] - 1) - 100.0        # a shortcut loses exactly 100
        def is_absorbing(self_, s): return s == GOAL
    mdp = Corridor()
    h = lambda s: 0.0 if s == GOAL else (-float(n - s[1]) if s[0] == "c" else -float(n - s[1] - 1))
    seed = rng.choice([0, 1, 2, 3, 7, rng.randrange(2 ** 31)])
    margin = rng.choice([1e-2, 1e-4])
    case.family = "shortcut-corridor"
    case.params = dict(n=n, seed=seed, margin=margin, randomize_action_order=True)
    case.nontrivial = True
    case.sig("shortcut-corridor", n, seed, margin)
    case.count("runs_over_hundreds_of_states")
    res = case.call("LRTDP.plan_on", LRTDP(heuristic=h, seed=seed, randomize_action_order=True, bellman_error_margin=margin).plan_on, mdp)
    case.count("lrtdp_calls")
    for k in ("listener_timesteps", "listener_trials", "values_checked_online"):
        case.count(k, 0)
    if res is case.FAIL:
        return
    case.check(abs(float(res.initial_value) + n) <= margin * n + 1e-9, "initial_value-not-within-margin-of-optimal", f"{res.initial_value!r} vs {-n}")
    s, total, steps = ("c", 0), 0.0, 0
    while s != GOAL and steps < 3 * n:
        d = {a: p for a, p in res.policy.action_dist(s).items() if p > 0}
        if len(d) != 1:
            case.fail("policy-not-deterministic-available-action", f"at {s!r}: {d!r}")
            return
        a = next(iter(d))
        ns = next(iter(mdp.next_state_dist(s, a).support))
        total += mdp.reward(s, a, ns)
        s, steps = ns, steps + 1
    case.check(s == GOAL and total >= -n - margin * n - 1e-9, "returned-policy-not-within-margin-of-optimal",
               lambda: f"corridor of {n}: the policy's return is {total!r} after {steps} steps, optimal {-n}")


def run_case(case, rng):
    from msdm.algorithms.lrtdp import LRTDP, LRTDPEventListener
    from mon.gen import build as Bd

    if rng.random() < (0.014 if case.tier == "quick" else 0.001):
        return _shortcut_corridor(case, rng)

    n_max = 12 if case.tier == "thorough" and rng.random() < 0.3 else 7
    tie_family = rng.random() < 0.3
    if tie_family:
        # integer non-positive rewards + an optimistic constant heuristic: exact ties between an explored action
        # and an unexplored branch that still holds its heuristic value are common here
        sp = G.random_spec(rng, "proper", n_max=n_max, allow_implicit=False, reward_sign="neg",
                           gamma=rng.choice([1.0, 1.0, 0.5]), allow_zero_entries=False)
        for key, lst in list(sp.P.items()):          # deterministic, costs in {-1,-2}
            pos = {t: i for i, t in enumerate(sp.states)}
            up = [t for t, q in lst if q > 0 and pos[t] > pos[key[0]]]
            tgt = rng.choice(up) if up else max(lst, key=lambda x: x[1])[0]   # keeps the MDP proper
            sp.P[key] = [(tgt, 1.0)]
            sp.kind[key] = "dict"
        if rng.random() < 0.5:
            # one of the actions is called 0 / "" / () / False: a label like any other
            falsy = rng.choice([0, "", (), 0.0])
            universe = sp.action_universe()
            if falsy not in universe and universe:
                old_a = universe[0]
                ren = lambda a_: falsy if a_ == old_a and type(a_) is type(old_a) else a_
                sp.acts = {s_: tuple(ren(a_) for a_ in acts_) for s_, acts_ in sp.acts.items()}
                sp.P = {(s_, ren(a_)): v_ for (s_, a_), v_ in sp.P.items()}
                sp.kind = {(s_, ren(a_)): v_ for (s_, a_), v_ in sp.kind.items()}
                sp.R = {(s_, ren(a_), t_): v_ for (s_, a_, t_), v_ in sp.R.items()}
                sp.meta["falsy_action_label"] = repr(falsy)
        costs = rng.choice([[-1, -1, -2], [0, 0, -1, -2]])       # with free moves some non-absorbing states are worth exactly 0
        for key in sp.R:
            sp.R[key] = float(rng.choice(costs))
    else:
        sp = G.random_spec(rng, "proper", n_max=n_max, allow_implicit=False,
                           reward_scale=rng.choice([1.0, 1.0, 1.0, 30.0, 1e7]))
    # initial mass on absorbing states on purpose
    if rng.random() < 0.35 and sp.flag:
        ab = rng.choice(sorted(sp.flag, key=repr))
        cur = [s for s, p in sp.init if p > 0]
        if ab not in cur:
            cur.append(ab)
        probs = G.rand_probs(rng, len(cur))
        sp.init = list(zip(cur, probs))
        sp.init_kind = "dict"
    rep = rng.choice(["subclass", "quicktabular", "subclass", "quicktabular", "dsp_override", "quick_override"])
    G.restrict_to_closure(sp, rng)
    sp.init = [(s, p) for s, p in sp.init if p > 0]
    if not tie_family and rng.random() < 0.2:
        # some stochastic outcomes written as a uniform distribution over a multiset of results (LRTDP only uses the
        # functional interface; the probabilities become k-ths so that the multiset is exact)
        for key, lst in list(sp.P.items()):
            live = [(t, q) for t, q in lst if q > 0]
            if len(live) >= 2 and rng.random() < 0.7:
                counts = [rng.choice([1, 1, 2, 3]) for _ in live]
                k = sum(counts)
                sp.P[key] = [(t, c / k) for (t, _), c in zip(live, counts)]
                sp.kind[key] = "multiset"
        sp.meta["multiset_outcomes"] = True
    mdp = Bd.build(sp, rep)
    persistent = tie_family and rng.random() < 0.3
    if persistent:
        # actions(s) hands out the SAME list object every time (as QuickMDP(actions=[...]) does): compared before/after
        mdp = Bd.PersistentActionsMDP(sp)
    gamma = sp.gamma
    arr = Rf.Arr(sp)
    pinned = arr.flag.copy()
    if arr.implicit.any() and not (arr.implicit <= arr.flag).all():
        raise Inconclusive("implicit absorbing state")
    sol = Rf.solve(arr, gamma, pinned)
    if not sol.ok:
        raise Inconclusive("reference not certified")
    scale = sol.scale
    hk, h = make_heuristic(rng, arr, sol, gamma)
    if tie_family and rng.random() < 0.7:
        hk, h = "zero", {s: 0.0 for s in arr.S}
        if rng.random() < 0.4:
            hk, h = "const+2", {s: 2.0 for s in arr.S}       # admissible (V* <= 0), but non-zero where the value is 0
    margin = rng.choice([1e-1, 1e-2, 1e-2, 1e-4] * 2 + [0.0, 1.0])     # and the end point 0 / a coarse whole-number margin
    seed = rng.choice([0, 1, 7, rng.randrange(2 ** 31)])
    rao = rng.random() < 0.5
    init_abs = [s for s, p in sp.init if s in sp.flag]
    case.family = "proper"
    case.params = dict(rep=("persistent_action_lists" if persistent else rep), gamma=gamma, n=len(sp.states), heuristic=hk, margin=margin, seed=seed,
                       randomize_action_order=rao, absorbing_initial=len(init_abs), tie_family=tie_family)
    Vstar = {s: float(sol.V[i]) for i, s in enumerate(arr.S)}
    tol = 1e-9 * scale
    stats = dict(steps=0, trials=0)

    def check_table(lv, where):
        if stats.get("warmup"):
            return
        V = lv["self"].res.V
        for s, v in list(V.items()):
            case.count("values_checked_online")
            if not (v >= Vstar[s] - tol):
                case.fail("online:value-below-optimal",
                          f"{where} (trial {stats['trials']}, step {stats['steps']}): V[{s!r}]={v!r} < V*={Vstar[s]!r}",
                          heuristic=hk)

    class Probe(LRTDPEventListener):
        def end_of_lrtdp_timestep(self, localvars):
            stats["steps"] += 1
            case.count("listener_timesteps")
            check_table(localvars, "timestep")

        def end_of_lrtdp_trial(self, localvars):
            stats["trials"] += 1
            case.count("listener_trials")
            check_table(localvars, "trial")

    if tie_family:
        rao = rng.random() < 0.8
    extra_kw = dict(iterations=300) if margin == 0.0 else {}    # exact convergence may never come: bounded number of trials
    if tie_family and margin > 0:
        # termination restated as bounded progress: a deterministic acyclic problem with <= 12 states needs a few dozen
        # trials; 3000 is two orders of magnitude more
        extra_kw["iterations"] = 3000
    if rng.random() < 0.2:
        extra_kw["max_trial_length"] = rng.choice([1, 2, 5])     # trials cut short: more of them, same guarantees
    case.params["max_trial_length"] = extra_kw.get("max_trial_length")
    from mon import defaults as Dflt
    lkw, _om = Dflt.rely_on_defaults(case, rng, "LRTDP", dict(bellman_error_margin=margin, randomize_action_order=rao,
                                                              event_listener_class=Probe, seed=seed, **extra_kw))
    htype = rng.choice(["float", "float", "np.float64", "0-d array", "int-if-integral"])
    conv = {"float": float, "np.float64": np.float64, "0-d array": np.asarray,
            "int-if-integral": (lambda v: int(v) if float(v).is_integer() else v)}[htype]
    hobj = {s_: conv(v_) for s_, v_ in h.items()}              # ONE stored object per state, handed out every time
    hsnap = {s_: float(v_) for s_, v_ in hobj.items()}
    case.params["heuristic_value_type"] = htype
    planner = LRTDP(heuristic=lambda s: hobj[s], **lkw)
    Dflt.in_force(case, "LRTDP", planner, passed=lkw)
    reuse = rng.random() < 0.3
    if reuse:
        # the same planner object first plans on a sibling problem over the SAME state labels in which one more
        # state is absorbing (still proper): nothing of that run may leak into the judged one
        import copy
        sib = copy.deepcopy(sp)
        extra = [s for s in sib.states if s not in sib.flag]
        if extra:
            sib.flag = set(sib.flag) | {rng.choice(extra)}
            stats_backup = dict(stats)
            stats["warmup"] = True
            case.call("LRTDP.plan_on(sibling)", planner.plan_on, Bd.build(sib, rep))
            stats.clear()
            stats.update(stats_backup)
            case.count("planner_reused")
            for k_ in ("listener_timesteps", "listener_trials", "values_checked_online"):
                pass
    res = case.call("LRTDP.plan_on", planner.plan_on, mdp, facts=dict(gamma=gamma, heuristic=hk))
    case.count("lrtdp_calls")
    now_h = {s_: float(v_) for s_, v_ in hobj.items()}
    case.check(now_h == hsnap, "planner-changed-the-heuristic's-own-value-objects",
               lambda: f"{[(s_, hsnap[s_], now_h[s_]) for s_ in hsnap if hsnap[s_] != now_h[s_]][:3]!r}", heuristic_value_type=htype)
    if res is case.FAIL:
        return
    if rng.random() < 0.3:
        # ... and the result object is only read AFTER the same planner has run on another problem
        import copy
        sib2 = copy.deepcopy(sp)
        extra2 = [s for s in sib2.states if s not in sib2.flag]
        if extra2:
            sib2.flag = set(sib2.flag) | {rng.choice(extra2)}
            backup = dict(stats)
            stats["warmup"] = True
            case.call("LRTDP.plan_on(sibling, afterwards)", planner.plan_on, Bd.build(sib2, rep))
            stats.clear()
            stats.update(backup)
            case.count("result_read_after_reuse")
    branches = bool(((arr.T > 0).sum(-1) >= 2).any() or (arr.avail.sum(-1) >= 2).any())
    case.nontrivial = stats["steps"] >= 1 and branches
    case.sig(len(arr.S), len(arr.A), gamma, tuple(sp.meta.get("abs_kinds", [])), hk, margin, rao, seed,
             int((arr.T > 0).sum()), stats["trials"], stats["steps"], len(init_abs))
    case.sample = dict(spec=sp.describe(), config=case.params, trials=stats["trials"], timesteps=stats["steps"],
                       touched_states=len(res.V), initial_value=float(res.initial_value))

    if persistent:
        now = {s_: tuple(v_) for s_, v_ in mdp.action_lists.items()}
        case.count("problem_action_lists_compared")
        case.check(now == mdp.action_snapshot, "planner-mutated-the-problem's-own-action-lists",
                   lambda: f"actions(s) before {mdp.action_snapshot!r} after {now!r}", randomize_action_order=rao)
    if tie_family and margin > 0 and getattr(res, "converged", None) is False:
        case.fail("initial-states-not-labelled-solved-within-3000-trials",
                  f"deterministic acyclic problem with {len(arr.S)} states, margin {margin}, heuristic {hk}", heuristic=hk)
        return
    if margin == 0.0 and getattr(res, "converged", None) is False:
        # ran out of trials before every residual was exactly 0: only the upper-bound clause (checked online) applies
        case.count("not_converged_at_margin_0")
        for s, v in list(res.V.items()):
            case.check(v >= Vstar[s] - tol, "final-value-below-optimal", f"V[{s!r}]={v!r} V*={Vstar[s]!r}")
        return
    if margin == 0.0:
        case.count("converged_at_margin_0")
    for s, p in sp.init:
        case.check(bool(res.solved[s]), "initial-state-not-solved", repr(s))
    for s, v in list(res.V.items()):
        case.check(v >= Vstar[s] - tol, "final-value-below-optimal", f"V[{s!r}]={v!r} V*={Vstar[s]!r}")
        if s in sp.flag:
            case.check(v == 0, "absorbing-state-explicit-value!=0", f"V[{s!r}]={v!r}")
    for s, row in list(res.Q.items()):
        if s in sp.flag:
            for a, q in row.items():
                case.check(q == 0, "absorbing-state-Q!=0", f"Q[{s!r},{a!r}]={q!r}")
    # reported values of absorbing states, whatever the heuristic says
    for s in sp.flag:
        if not (s in dict.keys(res.solved) or s in dict.keys(res.V)):
            continue        # never touched by the run
        v = case.call("res.V[absorbing]", lambda: res.V[s])
        if v is not case.FAIL:
            case.check(v == 0, "absorbing-state-reported-value!=0",
                       f"res.V[{s!r}]={v!r} heuristic={h[s]!r}", heuristic_at_state=h[s],
                       explicit_key=bool(s in dict.keys(res.V)))
    iv_exp = sum(p * (0.0 if s in sp.flag else float(res.V[s])) for s, p in sp.init)
    case.check(abs(float(res.initial_value) - iv_exp) <= 1e-12 * max(1, abs(iv_exp)),
               "initial_value-counts-heuristic-of-absorbing-initial-state",
               f"initial_value={float(res.initial_value)!r} expected {iv_exp!r}",
               absorbing_initial=[repr(s) for s in init_abs])
    # returned policy: walk, evaluate, expected steps
    pim = np.zeros_like(arr.avail, dtype=float)
    seen, frontier, ok_walk = set(), [s for s, p in sp.init], True
    while frontier:
        s = frontier.pop()
        if s in seen:
            continue
        seen.add(s)
        i = arr.si[s]
        if pinned[i]:
            continue
        d = case.call("policy.action_dist", res.policy.action_dist, s)
        if d is case.FAIL:
            ok_walk = False
            continue
        items = [(a, p) for a, p in d.items() if p > 0]
        good = bool(items) and abs(sum(p for _, p in items) - 1) <= 1e-9 and all(a in sp.acts[s] for a, _ in items)
        case.check(good, "policy-picks-unavailable-action-or-not-a-distribution", f"state {s!r}: {items!r}")
        if not good:
            ok_walk = False
            continue
        for a, p in items:
            pim[i, arr.ai[a]] = p
            for t, q in sp.P[(s, a)]:
                if q > 0:
                    frontier.append(t)
    if not ok_walk:
        return
    for i in range(len(arr.S)):
        if pim[i].sum() == 0:
            pim[i, np.argmax(arr.avail[i])] = 1.0
    steps = Rf.expected_steps(arr, pim, pinned)
    ev = Rf.evaluate_policy_matrix(arr, pim, pinned, gamma)
    for s, p in sp.init:
        i = arr.si[s]
        if pinned[i]:
            continue
        bound = margin * steps[i] + tol
        v = float(res.V[s])
        case.check(v - Vstar[s] <= bound, "initial-value-exceeds-optimum-by-more-than-margin*steps",
                   f"V[{s!r}]={v!r} V*={Vstar[s]!r} margin={margin} E[steps]={steps[i]!r}")
        case.check(ev["V"][i] >= Vstar[s] - bound, "returned-policy-outside-margin",
                   f"V^pi[{s!r}]={ev['V'][i]!r} V*={Vstar[s]!r} allowed {bound!r}")
