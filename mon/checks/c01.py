"""C01 — value iteration (both implementations) and policy iteration are optimal.
Monitor: boundary recording of plan_on / batch_plan_on + purity sentinel on the MDP's arrays.
Oracle: reference V*/Q* (mon.ref.mdp) with bounds derived from the stopping rule actually coded."""
import copy
import math
import numpy as np

from mon.case import Inconclusive
from mon.gen import mdp as G
from mon.ref import mdp as Rf

PROP = "C01"
CASES = {"quick": 640, "thorough": 100000}
CASE_TIMEOUT = 120
SHARD_TIMEOUT = {"quick": 900, "thorough": 7200}
MAX_EVENT_FRACTION = {"pi_not_converged_with_ample_cap": 0.02}     # per case (3 PI results per case)
REQUIRED = ["vi_vec_calls", "vi_dict_calls", "pi_calls", "pi_batch_calls", "policy_rows_checked"]
RULE = ("random finite MDP specs (families any[gamma<1], sspneg/zerocycle/proper-neg[gamma=1]) x "
        "4 msdm representations x residual/iteration-cap/placeholder settings; each case runs VI "
        "vectorized + VI dict + PI + PI batch on the same object. distinct = structural signature "
        "(family, sizes, gamma, absorbing kinds, config); non-trivial = at least one non-absorbing "
        "state with >=2 available actions or stochastic branching.")
ASSUMPTIONS = [
    "reference V*/Q* from mon.ref.mdp (Gauss-Jacobi VI to 1e-13 + exact evaluation of its greedy policy; cases whose reference is not certified to 1e-9 are inconclusive)",
    "gamma=1 MDPs where a state that can reach absorption may also fall into a negative trap are not generated (V* is -inf there; outside the property's well-defined domain)",
    "zero-probability entries only point inside the state list (ghost zero entries are C06's subject)",
]


def _config(rng, gamma):
    eps = rng.choice([1e-3, 1e-5, 1e-5, 1e-8])
    cap = int(1e5) if rng.random() < 0.8 else rng.choice([1, 2, 3, 5, 10, 30])
    ph = rng.choice([0, 0, -7.5, float("-inf")])
    return eps, cap, ph


def _large(rng):
    n = rng.choice([270, 300, 330])
    sp = G.Spec()
    sp.family = "sspneg-large"
    sp.gamma = 1.0
    sp.states = list(range(n))
    for i in range(n - 1):
        sp.acts[i] = ("f", "g")
        for a in ("f", "g"):
            # a big densely connected block (walk counts explode) that feeds a small tail block which cannot return:
            # the reachability relation has genuine zeros next to astronomically many walks
            tail = list(range(n - 11, n - 1))
            if i < n - 11:
                succ = sorted(set(rng.sample(range(n - 1), 12)))
            else:
                succ = sorted(set(rng.sample(tail, 4)))
            p_abs = 0.3 if a == "f" else 0.4            # quick absorption keeps the number of sweeps small
            sp.P[(i, a)] = [(t, (1.0 - p_abs) / len(succ)) for t in succ] + [(n - 1, p_abs)]
            sp.kind[(i, a)] = "dict"
            for t in succ + [n - 1]:
                sp.R[(i, a, t)] = -1.0 if a == "f" else -1.5
    sp.acts[n - 1] = ("f",)
    sp.P[(n - 1, "f")] = [(n - 1, 1.0)]
    sp.kind[(n - 1, "f")] = "dict"
    sp.R[(n - 1, "f", n - 1)] = 0.0
    sp.flag = {n - 1}
    sp.init = [(0, 1.0)]
    sp.meta.update(abs_kinds=["zero"], label_kind="int", abs_type="bool", num_type="float", actions_type="tuple",
                   fresh_labels=False, large=n)
    return sp


def run_case(case, rng):
    from mon import defaults as Dflt
    from msdm.algorithms import ValueIteration, PolicyIteration
    from mon.gen import build as Bd
    from mon.probe import read as Rd

    fam = rng.choice(["any", "any", "any", "sspneg", "sspneg", "zerocycle", "properneg"])
    thorough = case.tier == "thorough"
    n_max = 12 if thorough and rng.random() < 0.3 else 7
    if fam == "properneg":
        sp = G.random_spec(rng, "proper", n_max=n_max, gamma=1.0, reward_sign="neg")
        sp.family = "properneg"
    else:
        # large reward magnitudes (values in the 1e4..1e5 range) on some cases: absolute tolerances and finite
        # stand-ins for -inf only show at scale
        sp = G.random_spec(rng, fam, n_max=n_max, trap_entry=(fam == "sspneg"),
                           reward_scale=rng.choice([1.0, 1.0, 1.0, 1.0, 1000.0, 64.0, 1e7]))
    if case.index % (1571 if thorough else 157) == 3:          # (primes: the large cases spread over all shards)
        # a LARGE, well connected state space at gamma = 1 (hundreds of states, ~20 successors each): anything that
        # counts walks or multiplies adjacency matrices leaves float range here
        fam, sp = "sspneg-large", _large(rng)
    rep = rng.choice(Bd.REPRS)
    if rng.random() < 0.08:
        rep = "annotated"       # equal-but-distinct state objects whose step note the reward function reads
    if rng.random() < 0.1:
        rep = rng.choice(["dsp_override", "quick_override"])       # models written by subclassing a library class and overriding its public methods
    if not rep.endswith("explicit"):
        G.restrict_to_closure(sp, rng)
    eps, cap, ph = _config(rng, sp.gamma)
    if ph == float("-inf"):
        sp.init = [(s, p) for s, p in sp.init if p > 0]
    case.family = fam
    case.params = dict(rep=rep, eps=eps, cap=cap, placeholder=ph, gamma=sp.gamma,
                       n=len(sp.states), label_kind=sp.meta.get("label_kind"))
    sp_model = sp
    if sp.flag and rep not in ("annotated",) and rng.random() < 0.12:
        # an explicitly absorbing state never collects reward: its own reward entries are a don't-care, and a caller may put an
        # infinite placeholder there ("nothing is defined after termination"). The reference keeps the finite spec.
        import copy as _copy
        sp_model = _copy.deepcopy(sp)
        inf_ph = rng.choice([float("-inf"), float("inf")])
        for s_ in sp_model.flag:
            for a_ in sp_model.acts.get(s_, ()):
                for t_, _p in sp_model.P.get((s_, a_), []):
                    sp_model.R[(s_, a_, t_)] = inf_ph
        case.count("models_with_infinite_placeholder_rewards_at_absorbing_states")
        case.params["absorbing_reward_placeholder"] = repr(inf_ph)
    mdp = Bd.build(sp_model, rep, shuffle_rng=rng)
    if rng.random() < 0.15:
        # an MDP handed over as matrices whose transition array is DENSE: rows of unavailable actions hold a
        # (meaningless) distribution too and only the action matrix says they are unavailable
        from msdm.core.mdp import TabularMarkovDecisionProcess
        S0, A0 = list(sp.states), sp.action_universe()
        a0 = Rf.Arr(sp, states=S0, actions=A0)
        Td = a0.T.copy()
        for i in range(len(S0)):
            for j in range(len(A0)):
                if not a0.avail[i, j]:
                    Td[i, j, rng.randrange(len(S0))] = 1.0
        mdp = TabularMarkovDecisionProcess.from_matrices(
            state_list=tuple(S0), action_list=tuple(A0), initial_state_vec=a0.init.copy(), transition_matrix=Td,
            action_matrix=a0.avail.astype(float), reward_matrix=a0.R.copy(),
            absorbing_state_vec=a0.flag.copy(), discount_rate=sp.gamma)
        rep = "from_matrices_dense"
        case.params["rep"] = rep

    S = case.call("state_list", lambda: list(mdp.state_list))
    A = case.call("action_list", lambda: list(mdp.action_list))
    if S is case.FAIL or A is case.FAIL:
        return
    if set(S) != set(sp.states) or len(S) != len(sp.states):
        raise Inconclusive("state_list differs from spec closure (C06's subject)")
    arr = Rf.Arr(sp, states=S, actions=A)
    gamma = sp.gamma
    can = arr.can_reach_absorbing()
    cannot = (~can) if gamma == 1.0 else np.zeros(len(S), dtype=bool)
    pinned = arr.absorbing | cannot
    sol = Rf.solve(arr, gamma, pinned)
    if not sol.ok:
        raise Inconclusive("reference not certified")
    scale = sol.scale
    nontriv = any((not pinned[i]) and (arr.avail[i].sum() >= 2 or (arr.T[i] > 0).sum(-1).max() >= 2)
                  for i in range(len(S)))
    case.nontrivial = bool(nontriv)
    case.sig(fam, len(S), len(A), gamma, tuple(sp.meta.get("abs_kinds", [])), int(cannot.sum()),
             rep, eps, cap, repr(ph), int(arr.avail.sum()), int((arr.T > 0).sum()),
             round(float(np.nansum(sol.V)), 6))
    zero_closed = bool(_zero_reward_closed_set(arr, pinned).any()) if gamma == 1.0 else False
    case.sample = dict(spec=sp.describe(), config=case.params,
                       reference_V=[round(float(v), 6) for v in sol.V], zero_closed_set=zero_closed)

    purity = Rd.Purity(mdp)
    results = {}

    def judge(name, res, B_of_policy, is_pi, cap_used, mdp_obj=mdp, arr_=arr, sol_=sol, pinned_=pinned,
              cannot_=cannot):
        S_ = arr_.S
        A_ = arr_.A
        facts = dict(algorithm=name, gamma=gamma, zero_closed_set=zero_closed, family=fam)
        V = case.call(f"{name}.state_value", lambda: Rd.vec(res.state_value, S_), facts=facts)
        Q = case.call(f"{name}.action_value", lambda: Rd.mat(res.action_value, S_, A_, default=-np.inf), facts=facts)
        PI = case.call(f"{name}.policy", lambda: Rd.mat(res.policy, S_, A_, default=0.0), facts=facts)
        if V is case.FAIL or Q is case.FAIL or PI is case.FAIL:
            return None
        conv = bool(res.converged)
        # (f) initial value = expectation of reported state values
        exp_iv = sum(p * float(res.state_value[s]) for s, p in sp.init if p > 0)
        iv = float(res.initial_value)
        same = (iv == exp_iv) or (math.isfinite(exp_iv) and abs(iv - exp_iv) <= 1e-12 * max(1.0, abs(exp_iv)))
        case.check(same, "initial_value!=E[state_value]", f"{name}: {iv} vs {exp_iv}", **facts)
        if not conv:
            case.count("not_converged")
            # value iteration is a contraction: convergence is demanded when the cap is far above what the
            # reference needed.  Policy iteration compares tie-sharing policies with isclose and can cycle between
            # near-tied policies (observed once in 100 000 thorough cases, gamma=.99); the statement promises
            # nothing for a run that reports converged=False, so that is counted (and a run in which it happens
            # in more than 1% of the cases is INCONCLUSIVE, see MAX_EVENT_FRACTION), not judged.
            if cap_used >= 20 * sol_.iterations + 100:
                if is_pi:
                    case.count("pi_not_converged_with_ample_cap")
                else:
                    case.fail("converged=False-with-ample-cap",
                              f"{name}: cap={cap_used}, reference needed {sol_.iterations}", **facts)
            return dict(V=V, Q=Q, PI=PI, conv=False)
        case.count("converged_results")
        # bounds
        nS = len(S_)
        if is_pi:
            # policy iteration stops when its tie-sharing policy is stable; ties are np.isclose(Q, max Q)
            # (rtol 1e-5, atol 1e-8), so the evaluated policy may mix actions up to delta below the best one:
            # V* - V^pi <= delta/(1-gamma)  (gamma<1)   resp.  delta * E[steps of pi]  (gamma=1)
            qmax = float(np.abs(np.where(np.isfinite(Q), Q, 0.0)).max()) if Q.size else 0.0
            delta_pi = 1e-8 + 1e-5 * qmax
            if gamma < 1:
                Bs = np.full(nS, delta_pi / (1 - gamma) + 1e-9 * sol_.scale)
            else:
                steps, _, _ = Rf.expected_steps(arr_, _norm_rows(PI, arr_.avail), pinned_, return_parts=True)
                Bs = delta_pi * (1.0 + steps) + 1e-9 * sol_.scale
        elif gamma < 1:
            Bs = np.full(nS, eps / (1 - gamma) + 1e-9 * sol_.scale)
        else:
            # gamma = 1.  V_k = V^pi + (I - P_pi)^-1 d_k with pi STRICTLY greedy for V_k and 0 <= d_k <= eps,
            # so 0 <= V_k - V* <= eps * E[steps of pi].  pi is read off msdm's own action values (first
            # maximiser); a closed class of pi with zero reward is worth 0 and acts as a terminal; if pi
            # can reach a closed class paying negative reward the identity gives no bound (B = inf).
            Qa = np.where(arr_.avail, Q, -np.inf)
            pg = np.zeros_like(PI)
            pg[np.arange(nS), np.argmax(Qa, axis=1)] = 1.0
            steps, reach_rec, recurrent = Rf.expected_steps(arr_, pg, pinned_, return_parts=True)
            T_, ER_ = Rf._masked(arr_, pinned_)
            r_pi = np.einsum("sa,sa->s", ER_, pg)
            P_pi = np.einsum("san,sa->sn", T_, pg)
            negrec = recurrent & (r_pi < 0)
            reach = Rf.reachability(P_pi > 0)
            bad = reach[:, negrec].any(axis=1) if negrec.any() else np.zeros(nS, dtype=bool)
            Bs = np.where(bad, np.inf, eps * (1.0 + steps) + 1e-9 * sol_.scale)
        # (b) absorbing -> 0, cannot reach -> placeholder exactly
        for i in range(nS):
            if arr_.absorbing[i]:
                case.check(V[i] == 0.0, "absorbing-state-value!=0", f"{name}: V[{S_[i]!r}]={V[i]}", **facts)
            elif cannot_[i]:
                case.check(V[i] == ph or (ph != ph), "placeholder-not-applied",
                           f"{name}: V[{S_[i]!r}]={V[i]} placeholder={ph}", **facts)
        # (a) values
        live = ~pinned_
        for i in np.nonzero(live)[0]:
            d = V[i] - sol_.V[i]
            # (undiscounted value iteration approaches V* from above: only rounding may put it below - 1e-9 of the model's scale or a
            # few ulps of the value itself, whichever is larger: values of 1e7 and more carry ulps of 2e-9)
            lo = -Bs[i] if (gamma < 1 or is_pi) else -max(1e-9 * sol_.scale, 1e-12 * abs(float(sol_.V[i])))
            ok = (d >= lo) and (d <= Bs[i])
            case.check(ok, "state_value-outside-bound",
                       lambda: f"{name}: V[{S_[i]!r}]={V[i]!r} V*={sol_.V[i]!r} bound={Bs[i]:.3g}",
                       diff=float(d), below_opt=bool(d < 0), **facts)
            for j in range(len(A_)):
                if arr_.avail[i, j]:
                    dq = Q[i, j] - sol_.Q[i, j]
                    bq = Bs.max() if gamma == 1.0 else Bs[i]
                    loq = -bq if (gamma < 1 or is_pi) else -max(1e-9 * sol_.scale, 1e-12 * abs(float(sol_.Q[i, j])))
                    case.check(loq <= dq <= bq, "action_value-outside-bound",
                               lambda: f"{name}: Q[{S_[i]!r},{A_[j]!r}]={Q[i, j]!r} Q*={sol_.Q[i, j]!r} bound={bq:.3g}",
                               diff=float(dq), below_opt=bool(dq < 0), **facts)
        # (c) policy rows
        Bmax = float(Bs[live].max()) if live.any() else 0.0
        if not np.isfinite(Bmax):
            case.count("bound_unavailable")
            return dict(V=V, Q=Q, PI=PI, conv=True, B=Bs)
        for i in np.nonzero(live)[0]:
            case.count("policy_rows_checked")
            row = PI[i]
            supp = row > 0
            ok_sum = abs(row.sum() - 1.0) <= 1e-9
            ok_avail = not (supp & ~arr_.avail[i]).any()
            k = int(supp.sum())
            ok_unif = k > 0 and np.allclose(row[supp], 1.0 / k, rtol=0, atol=1e-12)
            case.check(ok_sum and ok_avail and ok_unif, "policy-row-not-uniform-over-available-support",
                       lambda: f"{name}: row {S_[i]!r} = {row.tolist()} avail={arr_.avail[i].tolist()}", **facts)
            vstar = sol_.V[i]
            band_hi = 2 * Bmax + 1e-8 + 1e-5 * (abs(vstar) + Bmax)
            band_lo = 1e-8 + 1e-5 * max(0.0, abs(vstar) - Bmax) - 2 * Bmax
            gaps = vstar - sol_.Q[i]
            for j in range(len(A_)):
                if not arr_.avail[i, j]:
                    continue
                if supp[j]:
                    case.check(gaps[j] <= band_hi, "suboptimal-action-in-policy",
                               lambda: f"{name}: state {S_[i]!r} action {A_[j]!r} gap={gaps[j]:.6g} band={band_hi:.3g}",
                               gap=float(gaps[j]), **facts)
                elif arr_.avail[i].sum() > 1:
                    case.check(not (gaps[j] <= band_lo), "optimal-action-missing-from-policy",
                               lambda: f"{name}: state {S_[i]!r} action {A_[j]!r} gap={gaps[j]:.3g} row={row.tolist()}",
                               gap=float(gaps[j]), **facts)
            # exact duplicates: both in or both out
            for (ds, a0, a1) in sp.meta.get("dup", []):
                if repr(S_[i]) == ds:
                    j0 = [repr(a) for a in A_].index(a0)
                    j1 = [repr(a) for a in A_].index(a1)
                    case.check(bool(supp[j0]) == bool(supp[j1]), "exact-tie-not-shared",
                               f"{name}: state {ds} duplicates {a0},{a1} row={row.tolist()}", **facts)
        # (d) exact return of the returned policy
        pim = _norm_rows(PI, arr_.avail)
        try:
            ev = Rf.evaluate_policy_matrix(arr_, pim, pinned_, gamma)
        except np.linalg.LinAlgError:
            ev = None
        if ev is not None:
            delta = 1e-8 + 1e-5 * sol_.scale
            if gamma < 1:
                loss = (2 * gamma * Bmax + delta) / (1 - gamma) + 1e-9 * sol_.scale
                loss = np.full(nS, loss)
            else:
                steps, reach_rec, _ = Rf.expected_steps(arr_, pim, pinned_, return_parts=True)
                loss = (2 * Bmax + delta) * (1 + steps) + 1e-9 * sol_.scale
            for i in np.nonzero(live)[0]:
                case.check(ev["V"][i] >= sol_.V[i] - loss[i], "returned-policy-not-optimal",
                           lambda: f"{name}: V^pi[{S_[i]!r}]={ev['V'][i]!r} V*={sol_.V[i]!r} allowed loss={loss[i]:.3g}",
                           **facts)
        return dict(V=V, Q=Q, PI=PI, conv=True, B=Bs)

    # ---- value iteration, both versions ------------------------------------------------------
    for ver, key in (("vectorized", "vi_vec"), ("dict", "vi_dict")):
        vkw, om = Dflt.rely_on_defaults(case, rng, "ValueIteration", dict(max_iterations=cap, max_residual=eps, undefined_value=ph, _version=ver))
        vi = ValueIteration(**vkw)
        Dflt.in_force(case, "ValueIteration", vi, om)
        res = case.call(f"{key}.plan_on", vi.plan_on, mdp, facts=dict(algorithm=key, gamma=gamma))
        case.count(f"{key}_calls")
        if res is case.FAIL:
            continue
        results[key] = judge(key, res, None, False, cap)
    a, b = results.get("vi_vec"), results.get("vi_dict")
    if a and b and a["conv"] and b["conv"]:
        live = ~pinned
        for i in np.nonzero(live)[0]:
            tol = a["B"][i] + b["B"][i]
            case.check(abs(a["V"][i] - b["V"][i]) <= tol, "vi-versions-disagree",
                       lambda: f"V_vec={a['V'][i]!r} V_dict={b['V'][i]!r} tol={tol:.3g} at {S[i]!r}")
        case.count("vi_pairs_compared")

    # ---- policy iteration --------------------------------------------------------------------
    pi_cap = cap if cap < 1e5 else 1000
    facts_pi = dict(algorithm="pi", gamma=gamma, zero_closed_set=zero_closed, family=fam)
    pkw, om = Dflt.rely_on_defaults(case, rng, "PolicyIteration", dict(max_iterations=pi_cap, undefined_value=ph))
    pi = PolicyIteration(**pkw)
    Dflt.in_force(case, "PolicyIteration", pi, om)
    res = case.call("pi.plan_on", pi.plan_on, mdp, facts=facts_pi)
    case.count("pi_calls")
    res_pi_single = res        # judged only AFTER the same planner has solved a same-shape batch (below)

    # batch entry point: same-shape sibling MDPs (explicit identical lists)
    sp2 = copy.deepcopy(sp)
    for k in sp2.R:
        sp2.R[k] = sp2.R[k] * 2.0 if gamma == 1.0 else -sp2.R[k]
    if gamma < 1:
        sp2.gamma = rng.choice([0.5, 0.9])
    sib = []
    for spx in (sp, sp2):
        m = Bd.SpecMDP(spx)
        m._state_list = tuple(S)
        m._action_list = tuple(A)
        sib.append(m)
    if rng.random() < 0.5:
        # the second member lists the SAME states and actions in another order: same shape, own labels
        S2, A2 = list(S), list(A)
        rng.shuffle(S2)
        rng.shuffle(A2)
        sib[1]._state_list, sib[1]._action_list = tuple(S2), tuple(A2)
        case.count("pi_batches_with_differently_ordered_members")
    # the same planner solves a same-shape problem right after the judged one (an earlier result must not alias
    # scratch memory of a later call); the judged result is read only at the very end
    case.call("pi.plan_on(sibling)", pi.plan_on, sib[1], facts=facts_pi)
    order = [0, 1] if rng.random() < 0.5 else [1, 0]
    batch = [sib[k] for k in order]
    resb = case.call("pi.batch_plan_on", pi.batch_plan_on, batch, facts=facts_pi)
    case.count("pi_batch_calls")
    if resb is not case.FAIL:
        for k, r in zip(order, resb):
            if k == 0:
                judge("pi_batch", r, None, True, pi_cap if pi_cap < 1000 else 10 ** 9)
            else:
                arr2 = Rf.Arr(sp2, states=S, actions=A)
                pinned2 = arr2.absorbing | ((~arr2.can_reach_absorbing()) if sp2.gamma == 1.0
                                            else np.zeros(len(S), dtype=bool))
                sol2 = Rf.solve(arr2, sp2.gamma, pinned2)
                if sol2.ok:
                    _judge_sibling(case, r, arr2, sol2, pinned2, sp2, Rd)

    if res_pi_single is not case.FAIL:
        judge("pi", res_pi_single, None, True, pi_cap if pi_cap < 1000 else 10 ** 9)
    ch = purity.changed()
    case.check(not ch, "purity:mdp-arrays-mutated", f"changed: {ch}")


def _judge_sibling(case, res, arr, sol, pinned, sp2, Rd):
    """Light oracle for the second member of a batch: converged => values equal V* (solver
    precision)."""
    if not bool(res.converged):
        return
    V = Rd.vec(res.state_value, arr.S)
    facts = dict(algorithm="pi_batch_sibling", gamma=sp2.gamma,
                 zero_closed_set=bool(_zero_reward_closed_set(arr, pinned).any()) if sp2.gamma == 1.0 else False)
    # the same bound as for the judged member: policy iteration's own tie band (isclose, rtol 1e-5) allows
    # delta/(1-gamma), resp. delta * E[steps of the returned policy]
    from mon.ref import mdp as Rf
    Q = Rd.mat(res.action_value, arr.S, arr.A)
    qmax = float(np.abs(np.where(np.isfinite(Q), Q, 0.0)).max()) if Q.size else 0.0
    delta_pi = 1e-8 + 1e-5 * qmax
    if sp2.gamma < 1:
        Bs = np.full(len(arr.S), delta_pi / (1 - sp2.gamma) + 1e-9 * sol.scale)
    else:
        PI = Rd.mat(res.policy, arr.S, arr.A)
        steps, _, _ = Rf.expected_steps(arr, _norm_rows(PI, arr.avail), pinned, return_parts=True)
        Bs = delta_pi * (1.0 + np.where(np.isfinite(steps), steps, 0.0)) + 1e-9 * sol.scale
    for i in range(len(arr.S)):
        if not pinned[i]:
            d = V[i] - sol.V[i]
            case.check(abs(d) <= Bs[i], "state_value-outside-bound",
                       f"pi_batch sibling: V[{arr.S[i]!r}]={V[i]!r} V*={sol.V[i]!r}",
                       diff=float(d), below_opt=bool(d < 0), **facts)


def _norm_rows(PI, avail):
    pim = np.where(avail, np.clip(PI, 0, None), 0.0)
    s = pim.sum(-1, keepdims=True)
    uniform = avail / np.maximum(avail.sum(-1, keepdims=True), 1)
    return np.where(s > 0, pim / np.where(s > 0, s, 1), uniform)


def _zero_reward_closed_set(arr, pinned):
    """Greatest set Z of non-pinned states such that every s in Z has an available action with
    expected reward 0 whose positive-probability successors all stay in Z."""
    nS, nA = arr.avail.shape
    Z = ~pinned
    changed = True
    while changed:
        changed = False
        for i in range(nS):
            if not Z[i]:
                continue
            ok = False
            for j in range(nA):
                if arr.avail[i, j] and arr.ER[i, j] == 0 and not ((arr.T[i, j] > 0) & ~Z).any():
                    ok = True
                    break
            if not ok:
                Z[i] = False
                changed = True
    return Z
