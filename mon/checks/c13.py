"""C13 — a fixed seed makes every randomised component reproducible and isolated.
Monitors: (1) RNG-state sentinel: the states of the global `random`, numpy and torch generators are
hashed before and after every call (any draw or reseed is an access violation even if this run's
result is unaffected); (2) canonical result digests compared across three different prior global
generator states inside one process, and (3) across separate processes started with different
PYTHONHASHSEED values (parent phase)."""
import hashlib
import json
import os
import random
import subprocess
import sys

import numpy as np

PROP = "C13"
SEEDS = [0, 1, 7, 2 ** 31]
COMPONENT_NAMES = ["laostar", "lrtdp", "astar", "bfs", "qlearning", "sarsa", "expsarsa", "doubleq", "rmax",
                   "bpi", "ga", "semimdp_option", "implicit", "policy_run_on", "policy_evaluate_on",
                   "pomdp_run_on_fsc", "pomdp_run_on_alpha", "laostar_mixed_labels", "lrtdp_mixed_labels", "lrtdp_large", "laostar_large"]
PROBLEMS = ["p0", "p1", "p2"]
PROBLEMS_THOROUGH = ["p0", "p1", "p2", "p3", "p4", "p5", "p6", "p7"]
SEEDS_THOROUGH = SEEDS + [123456789, 42]
CASES = {"quick": len(COMPONENT_NAMES) * len(PROBLEMS) * len(SEEDS),
         "thorough": len(COMPONENT_NAMES) * len(PROBLEMS_THOROUGH) * len(SEEDS_THOROUGH)}
CASE_TIMEOUT = 180
REQUIRED = ["component_runs", "sentinel_checks", "digest_comparisons_in_process", "digest_comparisons_across_processes",
            "hashseed_processes"]
RULE = ("21 randomised components (LAO*, LRTDP - also on a functional MDP whose state labels mix strings and tuples "
        "(unsortable) with several initial states -, A*, BFS, Q/SARSA/ExpSARSA/DoubleQ, R-MAX, bounded policy "
        "iteration, gradient ascent, semi-MDP option simulation with string-named options, implicit "
        "distributions, MDP roll-outs / Monte-Carlo evaluation, POMDP roll-outs with multi-state initial "
        "distributions) x 3 generated problems with STRING states/actions x seeds {0,1,7,2^31} (TD learners: "
        "epsilon/temperature in {(.3,.5),(1,.5),(0,0),(1,0)} by seed) x 3 prior states "
        "of the global generators; then the whole digest table is recomputed in separate processes with "
        "PYTHONHASHSEED in {0,1,4242} (8 values in thorough). distinct = (component, problem, seed); every case "
        "is non-trivial (the component draws random numbers).")
ASSUMPTIONS = ["digests are canonical reprs (floats by repr, mappings/sets sorted by repr of the key)",
               "components that go through TabularMDP.state_list use string / int labels (sortable): for unsortable label "
               "sets that list has no canonical order; the purely functional planners (LAO*, LRTDP) are also run with "
               "mixed str/tuple labels"]


# ---------------------------------------------------------------------------------------------
def canon(x, depth=0):
    import torch
    if depth > 12:
        return "..."
    if isinstance(x, float):
        return repr(x)
    if isinstance(x, (np.floating,)):
        return repr(float(x))
    if isinstance(x, (np.integer,)):
        return int(x)
    if isinstance(x, (bool, int, str)) or x is None:
        return x
    if isinstance(x, torch.Tensor):
        return canon(x.detach().numpy(), depth + 1)
    if isinstance(x, np.ndarray):
        if x.ndim == 0:
            return canon(x.item(), depth + 1)
        return [canon(v, depth + 1) for v in x.tolist()]
    if isinstance(x, dict):
        return sorted(([repr(canon(k, depth + 1)), canon(v, depth + 1)] for k, v in x.items()), key=lambda kv: kv[0])
    if isinstance(x, (set, frozenset)):
        return sorted((canon(v, depth + 1) for v in x), key=repr)
    if isinstance(x, (list, tuple)):
        return [canon(v, depth + 1) for v in x]
    if hasattr(x, "items"):
        try:
            return canon(dict(x.items()), depth + 1)
        except Exception:
            pass
    return repr(x)


def digest(x):
    return hashlib.sha1(json.dumps(canon(x), sort_keys=True, default=repr).encode()).hexdigest()[:20]


def sentinel():
    import torch
    st = np.random.get_state()
    h = hashlib.sha1()
    h.update(repr(random.getstate()).encode())
    h.update(repr(st[0]).encode() + st[1].tobytes() + repr(st[2:]).encode())
    h.update(torch.get_rng_state().numpy().tobytes())
    return h.hexdigest()


def set_globals(k):
    import torch
    random.seed(1000 + k)
    np.random.seed(2000 + k)
    torch.manual_seed(3000 + k)
    for _ in range(k):
        random.random()
        np.random.rand()


# ---------------------------------------------------------------------------------------------
_cache = {}
_VS = os.environ.get("VERIF_SEED", "0") or "0"     # problems vary with VERIF_SEED (same in every process of a run)


def problem(pid):
    """Deterministic, hash-seed independent problems with string states/actions."""
    if pid in _cache:
        return _cache[pid]
    from mon.gen import mdp as G, pomdp as GP, build as Bd
    r = random.Random(f"C13-problem-{_VS}-{pid}")
    sp = G.random_spec(r, "proper", n_max=6, min_states=4, label_kind="str", allow_implicit=False,
                       gamma=r.choice([0.9, 0.95]), uniform_actions=True, allow_dup_actions=False, a_max=3)
    tries = 0
    while (len(G.closure(sp)) < 4 or not all(isinstance(a, str) for a in sp.action_universe()) or len(sp.action_universe()) < 2) and tries < 200:
        sp = G.random_spec(r, "proper", n_max=6, min_states=4, label_kind="str", allow_implicit=False,
                           gamma=r.choice([0.9, 0.95]), uniform_actions=True, allow_dup_actions=False, a_max=3)
        tries += 1
    G.restrict_to_closure(sp, r)
    sp.init = [(s, p) for s, p in sp.init if p > 0]
    if len(sp.init) < 2:
        extra = [s for s in sp.states if s not in sp.flag and s != sp.init[0][0]]
        if extra:
            sp.init = [(sp.init[0][0], 0.5), (extra[0], 0.5)]
            sp.init_kind = "dict"
    # POMDP with string labels
    pp = GP.random_pomdp(random.Random(f"C13-pomdp-{_VS}-{pid}"), special=None)
    tries = 0
    while (not all(isinstance(s, str) for s in pp.states) or len([1 for s, p in pp.init if p > 0]) < 2
           or len(pp.states) < 3 or not all(isinstance(o, str) for o in pp.obs)
           or not all(isinstance(a, str) for a in pp.action_universe())) and tries < 5000:
        pp = GP.random_pomdp(random.Random(f"C13-pomdp-{_VS}-{pid}-{tries}"), special=None)
        tries += 1
    # the problem hands out PERSISTENT list objects from actions(s) (as QuickMDP(actions=[...]) does): a component
    # that shuffles them in place changes the problem for every later run on the same object
    mdp_obj = Bd.PersistentActionsMDP(sp)
    out = dict(sp=sp, mdp=mdp_obj, pp=pp, pomdp=Bd.build_pomdp(pp))
    # digraph with string nodes for the searches
    gr = random.Random(f"C13-graph-{_VS}-{pid}")
    nodes = ["n%d" % i for i in range(8)]
    edges = {}
    for i, s in enumerate(nodes):
        for a in ("a", "b", "c"):
            edges[(s, a)] = (gr.choice(nodes[max(0, i - 2):min(8, i + 3)]), gr.choice([1, 1, 1, 2]))
    out["graph"] = (nodes, edges, {"n7"}, "n0")
    _cache[pid] = out
    return out


def relabeled(P):
    """the problem's MDP as a purely functional MDP whose state labels mix strings and tuples (unsortable)"""
    if "mixed" in P:
        return P["mixed"]
    from msdm.core.mdp import MarkovDecisionProcess
    from msdm.core.distributions import DictDistribution
    sp = P["sp"]
    f = {s: (s if i % 2 == 0 else ("t", s, i)) for i, s in enumerate(sp.states)}
    g = {v: k for k, v in f.items()}

    class Mixed(MarkovDecisionProcess):
        discount_rate = sp.gamma

        def next_state_dist(self, s, a):
            return DictDistribution({f[ns]: p for ns, p in sp.succ(g[s], a).items()})

        def reward(self, s, a, ns):
            return sp.reward(g[s], a, g[ns])

        def actions(self, s):
            return tuple(sp.acts[g[s]])

        def initial_state_dist(self):
            return DictDistribution({f[s_]: p for s_, p in sp.init})

        def is_absorbing(self, s):
            return g[s] in sp.flag
    P["mixed"] = (Mixed(), f, g)
    return P["mixed"]


def large_problem(P, pid):
    """a 20-26 state stochastic problem with string states (several states are open at once when LRTDP checks a label)"""
    if "large" in P:
        return P["large"]
    from mon.gen import mdp as G, build as Bd
    r = random.Random(f"C13-large-{_VS}-{pid}")
    sp = G.random_spec(r, "proper", n_max=26, min_states=20, label_kind="str", allow_implicit=False, gamma=0.95,
                       uniform_actions=True, allow_dup_actions=False, a_max=3, reward_sign="neg")
    G.restrict_to_closure(sp, r)
    sp.init = [(s, p) for s, p in sp.init if p > 0]
    P["large"] = (sp, Bd.build(sp, "subclass"))
    return P["large"]


def run_component(name, pid, seed):
    """Returns a digestable result."""
    P = problem(pid)
    sp, mdp = P["sp"], P["mdp"]
    if name in ("lrtdp_large", "laostar_large"):
        from msdm.algorithms import LAOStar, LRTDP
        spl, ml = large_problem(P, pid)
        if name == "lrtdp_large":
            res = LRTDP(heuristic=lambda s: 0.0, seed=seed, randomize_action_order=True, bellman_error_margin=1e-3).plan_on(ml)
            return dict(iv=res.initial_value, V=dict(res.V), pol={s: dict(res.policy.action_dist(s).items()) for s in dict.keys(res.V)})
        res = LAOStar(heuristic=lambda s: 0.0, seed=seed).plan_on(ml)
        nodes = res.solution_graph.states_to_nodes
        return dict(iv=res.initial_value, v=res.state_value_map, pol={s: dict(res.policy.action_dist(s).items()) for s in nodes})
    if name in ("laostar_mixed_labels", "lrtdp_mixed_labels"):
        from msdm.algorithms import LAOStar, LRTDP
        mm, f, g = relabeled(P)
        if name == "laostar_mixed_labels":
            k = (SEEDS_THOROUGH.index(seed) + PROBLEMS_THOROUGH.index(pid)) % 2
            res = LAOStar(heuristic=lambda s: 0.0 if g[s] in sp.flag else 50.0, seed=seed, randomize_action_order=(k == 0),
                          randomize_nextstate_order=(k == 0)).plan_on(mm)
            nodes = res.solution_graph.states_to_nodes
            return dict(iv=res.initial_value, it=res.iterations, v=res.state_value_map,
                        pol={s: dict(res.policy.action_dist(s).items()) for s in nodes},
                        order={s: nodes[s]['visitorder'] for s in nodes})
        res = LRTDP(heuristic=lambda s: 50.0, seed=seed, randomize_action_order=True, bellman_error_margin=1e-2).plan_on(mm)
        return dict(iv=res.initial_value, V=dict(res.V), pol={s: dict(res.policy.action_dist(s).items()) for s in dict.keys(res.V)})
    if name == "laostar":
        from msdm.algorithms import LAOStar
        from mon.ref import mdp as Rf
        arr = Rf.Arr(sp)
        sol = Rf.solve(arr, sp.gamma, arr.flag.copy())
        h = {s: float(v) + 1.0 for s, v in zip(arr.S, sol.V)}
        # the two ordering switches in all four combinations (by seed and problem): a seeded planner is reproducible and
        # leaves the global generators alone whatever they are set to
        k = (SEEDS_THOROUGH.index(seed) + PROBLEMS_THOROUGH.index(pid)) % 4
        rao, rno = [(True, True), (False, False), (True, False), (False, True)][k]
        res = LAOStar(heuristic=lambda s: h[s], seed=seed, randomize_action_order=rao,
                      randomize_nextstate_order=rno).plan_on(mdp)
        pol = {s: dict(res.policy.action_dist(s).items()) for s in res.solution_graph.states_to_nodes}
        # downstream use of the returned policy at states OFF the solution graph: the order in which it lists the actions and
        # equally seeded roll-outs from there (a uniform distribution samples by position)
        off = [s for s in sp.states if s not in res.solution_graph.states_to_nodes and s not in sp.flag]
        off_order = {s: list(res.policy.action_dist(s).support) for s in off}
        off_runs = []
        for s in off[:3]:
            sim = res.policy.run_on(mdp, initial_state=s, rng=random.Random(seed), max_steps=12)
            off_runs.append(list(sim.action))
        # ... and on a unit-cost twin of the problem with the zero heuristic, where every action ties off the solution graph
        import copy as _copy
        from mon.gen import build as Bd_
        sp1 = _copy.deepcopy(sp)
        for k_ in sp1.R:
            sp1.R[k_] = -1.0
        mdp1 = Bd_.SpecMDP(sp1)
        res1 = LAOStar(heuristic=lambda s: 0.0, seed=seed, randomize_action_order=rao, randomize_nextstate_order=rno).plan_on(mdp1)
        off1 = [s for s in sp1.states if s not in res1.solution_graph.states_to_nodes and s not in sp1.flag]
        tie_order = {s: list(res1.policy.action_dist(s).support) for s in off1}
        tie_runs = [list(res1.policy.run_on(mdp1, initial_state=s, rng=random.Random(seed), max_steps=12).action) for s in off1[:3]]
        return dict(iv=res.initial_value, it=res.iterations, v=res.state_value_map, pol=pol, off_order=off_order, off_runs=off_runs,
                    tie_order=tie_order, tie_runs=tie_runs, off_states=len(off), tie_states=len(off1))
    if name == "lrtdp":
        from msdm.algorithms import LRTDP
        k = (SEEDS_THOROUGH.index(seed) + PROBLEMS_THOROUGH.index(pid)) % 2
        res = LRTDP(heuristic=lambda s: 50.0, seed=seed, randomize_action_order=(k == 0), bellman_error_margin=1e-2).plan_on(mdp)
        return dict(iv=res.initial_value, V=dict(res.V), pol={s: dict(res.policy.action_dist(s).items()) for s in dict.keys(res.V)})
    if name in ("astar", "bfs"):
        from msdm.algorithms.search import AStarSearch, BreadthFirstSearch
        from msdm.core.mdp import QuickMDP
        nodes, edges, goals, start = P["graph"]
        # actions(s) hands out the SAME stored list on every call (compared before / after in run_case)
        glists = P.setdefault("graph_action_lists", {s: ["a", "b", "c"] for s in nodes})
        P.setdefault("graph_action_snapshot", {s: tuple(v) for s, v in glists.items()})
        prob = QuickMDP(next_state=lambda s, a: edges[(s, a)][0], initial_state=start,
                        reward=lambda s, a, ns: -edges[(s, a)][1], actions=lambda s: glists[s],
                        is_absorbing=lambda s: s in goals)
        if name == "astar":
            res = AStarSearch(seed=seed, randomize_action_order=True, tie_breaking_strategy="random").plan_on(prob)
            # the seed also governs random tie-breaking ALONE (actions tried in their listed order)
            res_t = AStarSearch(seed=seed, randomize_action_order=False, tie_breaking_strategy="random").plan_on(prob)
            tie_only = None if res_t is None else dict(path=res_t.path, value=res_t.path_value, visited=res_t.visited)
            return None if res is None else dict(path=res.path, value=res.path_value, visited=res.visited, tie_only=tie_only)
        res = BreadthFirstSearch(seed=seed, randomize_action_order=True).plan_on(prob)
        return None if res is None else dict(path=res.path, visited=res.visited)
    if name in ("qlearning", "sarsa", "expsarsa", "doubleq"):
        from msdm.algorithms import tdlearning as td
        cls = {"qlearning": td.QLearning, "sarsa": td.SARSA, "expsarsa": td.ExpectedSARSA, "doubleq": td.DoubleQLearning}[name]
        # exploration settings incl. the end points (pure exploration, pure greedy with random tie-breaks)
        k = (SEEDS_THOROUGH.index(seed) + PROBLEMS_THOROUGH.index(pid)) % 4
        rc, temp = [(0.3, 0.5), (1.0, 0.5), (0.0, 0.0), (1.0, 0.0)][k]
        res = cls(episodes=8, step_size=0.5, rand_choose=rc, softmax_temp=temp, seed=seed).train_on(mdp)
        return dict(q={s: dict(row) for s, row in res.q_values.items()}, ep=res.event_listener_results.episode_rewards)
    if name == "rmax":
        from msdm.algorithms.rmax import RMAX
        res = RMAX(episodes=8, rmax=float(np.max(mdp.reward_matrix)), num_transition_samples=2, seed=seed).train_on(mdp)
        return dict(q=res.q_values)
    if name == "bpi":
        from msdm.algorithms.fscboundedpolicyiteration import FSCBoundedPolicyIteration
        res = FSCBoundedPolicyIteration(controller_state_count=2, iterations=3, seed=seed).train_on(P["pomdp"])
        return dict(a=res.policy.action_strategy, o=res.policy.observation_strategy, i=res.policy.initial_state_dist,
                    v=res.value, V=res.state_controller_value)
    if name == "ga":
        from msdm.algorithms.fscgradientascent import FSCGradientAscent
        res = FSCGradientAscent(controller_state_count=2, iterations=4, seed=seed).train_on(P["pomdp"])
        return dict(a=res.policy.action_strategy, o=res.policy.observation_strategy, i=res.policy.initial_state_dist,
                    v=res.value.expected_value)
    if name == "semimdp_option":
        from msdm.core.semimdp.option import PlanToSubgoalOption
        from msdm.core.semimdp.semimdp import SemiMarkovDecisionProcess
        from msdm.algorithms import ValueIteration
        sub = [s for s in sp.states if s in sp.flag] or [sp.states[-1]]
        starts = [s for s in sp.states if s not in sub]
        opt = PlanToSubgoalOption(mdp=mdp, initial_states=starts, subgoals=sub, planner=ValueIteration(max_iterations=500),
                                  name="go-to-subgoal", max_steps=400)
        semi = SemiMarkovDecisionProcess(mdp=mdp, options=[opt], n_option_simulations=6, seed=seed)
        out = {}
        for s in starts[:2]:
            out[s] = dict(semi.next_state_transit_time_reward_dist(s, opt).items())
        # two UNNAMED options in one semi-MDP: what a query returns must not depend on which queries ran before it
        if len(sub) >= 1 and len(starts) >= 2:
            mk = lambda goal: PlanToSubgoalOption(mdp=mdp, initial_states=list(sp.states), subgoals=list(goal),
                                                  planner=ValueIteration(max_iterations=500), max_steps=400)
            oa, ob = mk(sub), mk(sub + starts[-1:])
            used = SemiMarkovDecisionProcess(mdp=mdp, options=[oa, ob], n_option_simulations=4, seed=seed)
            fresh = SemiMarkovDecisionProcess(mdp=mdp, options=[oa, ob], n_option_simulations=4, seed=seed)
            s0 = starts[0]
            used.next_state_transit_time_reward_dist(s0, oa)
            d_used = dict(used.next_state_transit_time_reward_dist(s0, ob).items())
            d_fresh = dict(fresh.next_state_transit_time_reward_dist(s0, ob).items())
            out["second-option"] = d_fresh
            out["__order_independent__"] = (digest(d_used) == digest(d_fresh))
        # two semi-MDPs over DIFFERENT ground models (this one and a unit-cost twin) that share the option object, the seed and the
        # simulation count, used alternately: what this one returns is what it returns on its own
        import copy as _copy2
        from mon.gen import build as Bd2_
        tw = _copy2.deepcopy(sp)
        for k_ in tw.R:
            tw.R[k_] = -7.0
        twin_mdp = Bd2_.SpecMDP(tw)
        twin_mdp._state_list, twin_mdp._action_list = tuple(mdp.state_list), tuple(mdp.action_list)
        semi_t = SemiMarkovDecisionProcess(mdp=twin_mdp, options=[opt], n_option_simulations=6, seed=seed)
        semi_m = SemiMarkovDecisionProcess(mdp=mdp, options=[opt], n_option_simulations=6, seed=seed)
        g_ = sp.gamma
        for s in starts[:2]:
            d_tw = dict(semi_t.next_state_transit_time_reward_dist(s, opt).items())
            for (ns_, t_, r_), p_ in d_tw.items():      # in the twin every step costs 7: the return of t steps is known
                want_ = -7.0 * (t_ if g_ == 1.0 else (1 - g_ ** t_) / (1 - g_))
                if p_ > 0 and abs(r_ - want_) > 1e-9 * max(1.0, abs(want_)):
                    out["__order_independent__"] = False
            d_alt = dict(semi_m.next_state_transit_time_reward_dist(s, opt).items())
            if digest(d_alt) != digest(out[s]):
                out["__order_independent__"] = False
        # numeric state labels (a noisy walk on 0..6, a user-written wandering option): the caller may spell the label 3, 3.0 or
        # numpy.int64(3); what a query returns must not depend on which spellings were asked about before it
        from msdm.core.mdp.mdp import MarkovDecisionProcess
        from msdm.core.mdp.policy import FunctionalPolicy
        from msdm.core.distributions import DictDistribution
        from msdm.core.semimdp.option import Option

        class Walk(MarkovDecisionProcess):
            discount_rate = 0.95
            def initial_state_dist(self_): return DictDistribution({3: 1.0})
            def actions(self_, s): return (-1, 1)
            def next_state_dist(self_, s, a):
                return DictDistribution({min(max(s + a, 0), 6): 0.7}) | DictDistribution({min(max(s - a, 0), 6): 0.3})
            def reward(self_, s, a, ns): return -1.0
            def is_absorbing(self_, s): return s == 6

        class Wander(Option):
            def __init__(self_):
                self_.name, self_.max_steps = "wander", 10000
                self_.policy = FunctionalPolicy(lambda s: DictDistribution({-1: 0.5, 1: 0.5}))
            def is_initial(self_, s): return True
            def is_terminal(self_, s): return s in (0, 6)
        wk, wo = Walk(), Wander()
        r_ = random.Random(f"C13-spell-{pid}-{seed}")
        spell = [3, 3.0, np.int64(3)]
        r_.shuffle(spell)
        usedw = SemiMarkovDecisionProcess(mdp=wk, options=[wo], n_option_simulations=5, seed=seed)
        for lab in spell[:-1]:
            usedw.next_state_transit_time_reward_dist(lab, wo)
        du = dict(usedw.next_state_transit_time_reward_dist(spell[-1], wo).items())
        df = dict(SemiMarkovDecisionProcess(mdp=wk, options=[wo], n_option_simulations=5, seed=seed)
                  .next_state_transit_time_reward_dist(spell[-1], wo).items())
        out["numeric-labels"] = {repr(k): v for k, v in df.items()}
        if digest(du) != digest(df):
            out["__order_independent__"] = False
        return out
    if name == "implicit":
        from msdm.core.distributions import ImplicitDistribution
        evs = list(sp.states)

        def fn(rng):
            return (rng.choice(evs), rng.randint(0, 3))
        # copies made of a not yet used distribution: each is a distribution with the same function, sample count and seed
        import copy as _copy
        base_ = ImplicitDistribution(fn, 30, _seed=seed)
        twins_ = [_copy.copy(base_), _copy.copy(base_)]
        drawn_ = [[d_.sample() for _ in range(3)] for d_ in [base_] + twins_]
        # finite distributions over MANY events (40-300), sampled with a caller-supplied generator
        from msdm.core.distributions import DictDistribution, UniformDistribution, SoftmaxDistribution
        r_ = random.Random(f"C13-wide-{pid}-{seed}")
        nw = r_.choice([33, 40, 70, 300])
        wts = [r_.randint(1, 9) for _ in range(nw)]
        wide = [DictDistribution({("e", i): w / sum(wts) for i, w in enumerate(wts)}), UniformDistribution([("u", i) for i in range(nw)]),
                SoftmaxDistribution({("s", i): float(w) for i, w in enumerate(wts)})]
        wide_draws = [[d_.sample(rng=random.Random(seed + j)) for j in range(4)] for d_ in wide]
        return dict(copies_agree=(drawn_[0] == drawn_[1] == drawn_[2]), copies_first=drawn_[0], wide=wide_draws,
                    items=dict(ImplicitDistribution(fn, 30, _seed=seed).items()),
                    exp=ImplicitDistribution(fn, 30, _seed=seed).expectation(lambda e: e[1]),
                    marg=dict(ImplicitDistribution(fn, 30, _seed=seed).marginalize(lambda e: e[0]).items()),
                    cond=dict(ImplicitDistribution(fn, 30, _seed=seed).condition(lambda e: e[1] >= 1).items()),
                    samp=[ImplicitDistribution(fn, 30, _seed=seed).sample() for _ in range(3)])
    if name in ("policy_run_on", "policy_evaluate_on"):
        from msdm.core.mdp import FunctionalPolicy
        from msdm.core.distributions import DictDistribution
        from mon.gen import mdp as G
        pol = G.random_policy(random.Random(f"C13-pol-{pid}"), sp, deterministic=False)
        fp = FunctionalPolicy(lambda s: DictDistribution(pol[s]))
        if name == "policy_run_on":
            sim = fp.run_on(mdp, rng=random.Random(seed), max_steps=30)
            return [dict(st) for st in sim.steps]
        res = fp.evaluate_on(mdp, n_simulations=5, max_steps=30, rng=random.Random(seed))
        return dict(iv=res.initial_value, sv={s: res.state_value[s] for s in res.state_value.keys()},
                    occ={s: res.state_occupancy[s] for s in res.state_occupancy.keys()})
    if name in ("pomdp_run_on_fsc", "pomdp_run_on_alpha"):
        from msdm.core.pomdp.alphavectorpolicy import AlphaVectorPolicy
        from msdm.core.pomdp.finitestatecontroller import StochasticFiniteStateController
        pomdp = P["pomdp"]
        S, A, OL = list(pomdp.state_list), list(pomdp.action_list), list(pomdp.observation_list)
        r = random.Random(f"C13-pompol-{pid}")
        if name == "pomdp_run_on_alpha":
            policy = AlphaVectorPolicy(pomdp, np.array([[r.choice([-1.0, 0.0, 2.0]) for _ in S] for _ in range(2)]))
        else:
            def simplex(n):
                w = [r.choice([1, 2, 3]) for _ in range(n)]
                return [x / sum(w) for x in w]
            policy = StochasticFiniteStateController(
                pomdp, np.array([simplex(len(A)) for _ in range(2)]),
                np.array([[[simplex(2) for _ in OL] for _ in A] for _ in range(2)]), np.array(simplex(2)))
        traj = policy.run_on(pomdp, max_steps=12, rng=random.Random(seed))
        return [[st.state, st.action, st.nextstate, st.reward, st.observation] for st in traj]
    raise ValueError(name)


def combos(tier="quick"):
    if tier == "thorough":
        return [(c, p, s) for c in COMPONENT_NAMES for p in PROBLEMS_THOROUGH for s in SEEDS_THOROUGH]
    return [(c, p, s) for c in COMPONENT_NAMES for p in PROBLEMS for s in SEEDS]


def run_case(case, rng):
    cs = combos(case.tier)
    comp, pid, seed = cs[case.index % len(cs)]
    case.family = comp
    case.params = dict(component=comp, problem=pid, seed=seed)
    case.nontrivial = True
    case.sig(comp, pid, seed)
    digests = []
    facts = dict(component=comp, seed=seed, problem=pid)
    for k in (0, 1, 2):
        set_globals(k)
        before = sentinel()
        res = case.call(f"{comp}", run_component, comp, pid, seed, facts=facts)
        after = sentinel()
        case.count("component_runs")
        case.count("sentinel_checks")
        if res is case.FAIL:
            return
        if isinstance(res, dict) and res.get("__order_independent__") is False:
            case.fail("result-depends-on-earlier-queries-on-the-same-object",
                      f"{comp}({pid}, seed={seed}): a query answered differently on a used and on a fresh semi-MDP", **facts)
        if isinstance(res, dict) and res.get("copies_agree") is False:
            case.fail("equally-seeded-copies-of-an-unused-distribution-draw-different-samples",
                      f"{comp}({pid}, seed={seed}): copy.copy of an unsampled ImplicitDistribution", **facts)
        m_ = problem(pid)["mdp"]
        now = {s_: tuple(v) for s_, v in m_.action_lists.items()}
        if now != m_.action_snapshot:
            case.fail("component-mutated-the-problem's-own-action-lists",
                      f"{comp}({pid}, seed={seed}): mdp.actions(s) changed after the call", **facts)
            for s_, v in m_.action_snapshot.items():
                m_.action_lists[s_][:] = list(v)
        P_ = problem(pid)
        if "graph_action_lists" in P_:
            now_g = {s_: tuple(v) for s_, v in P_["graph_action_lists"].items()}
            if now_g != P_["graph_action_snapshot"]:
                case.fail("component-mutated-the-problem's-own-action-lists",
                          f"{comp}({pid}, seed={seed}): the search problem's actions(s) lists changed during the call", **facts)
                for s_, v in P_["graph_action_snapshot"].items():
                    P_["graph_action_lists"][s_][:] = list(v)
        case.check(before == after, "global-generator-state-disturbed",
                   f"{comp}({pid}, seed={seed}): global random/numpy/torch state changed during the call", **facts)
        digests.append(digest(res))
    case.count("digest_comparisons_in_process", 2)
    case.check(len(set(digests)) == 1, "result-depends-on-global-generator-state-or-differs-between-runs",
               f"{comp}({pid}, seed={seed}): digests {digests}", **facts)
    case.sample = dict(component=comp, problem=pid, seed=seed, digest=digests[0])
    for k in ("digest_comparisons_across_processes", "hashseed_processes"):
        case.count(k, 0)


# ---------------------------------------------------------------------------------------------
def table(tier="quick"):
    import warnings
    warnings.simplefilter("ignore")
    np.seterr(all="ignore")
    out = {}
    for comp, pid, seed in combos(tier):
        set_globals(0)
        try:
            out[f"{comp}|{pid}|{seed}"] = digest(run_component(comp, pid, seed))
        except BaseException as e:
            out[f"{comp}|{pid}|{seed}"] = f"EXC:{type(e).__name__}"
    return out


def parent_phase(tier, seed, jobs, tmp, envf):
    hashseeds = ["0", "1", "4242"] if tier == "quick" else ["0", "1", "2", "3", "17", "4242", "99991", "123456"]
    procs = []
    for hs in hashseeds:
        out = os.path.join(tmp, f"table-{hs}.json")
        p = subprocess.Popen([sys.executable, "-m", "mon.checks.c13", "--table", out, tier], env=envf(hs),
                             cwd=os.path.dirname(os.path.dirname(os.path.dirname(os.path.abspath(__file__)))),
                             stdout=subprocess.DEVNULL, stderr=subprocess.PIPE)
        procs.append((hs, p, out))
    tables = {}
    notes = []
    for hs, p, out in procs:
        try:
            _, err = p.communicate(timeout=1500)
        except subprocess.TimeoutExpired:
            p.kill()
            notes.append(f"hashseed {hs}: timeout")
            continue
        if p.returncode == 0 and os.path.exists(out):
            tables[hs] = json.load(open(out))
        else:
            notes.append(f"hashseed {hs}: rc={p.returncode} {err.decode()[-400:]}")
    records = []
    events = {"hashseed_processes": len(tables), "digest_comparisons_across_processes": 0}
    violations = []
    if len(tables) >= 2:
        keys = sorted(set().union(*[set(t) for t in tables.values()]))
        for k in keys:
            vals = {hs: t.get(k) for hs, t in tables.items()}
            events["digest_comparisons_across_processes"] += len(vals) - 1
            comp, pid, sd = k.split("|")
            if any(str(v).startswith("EXC:") for v in vals.values()):
                continue        # exceptions are reported by the in-process cases
            if len(set(vals.values())) > 1:
                violations.append({"clause": "result-differs-between-processes(hash-randomisation)",
                                   "detail": f"{comp}({pid}, seed={sd}): digest per PYTHONHASHSEED {vals}",
                                   "facts": {"component": comp, "problem": pid, "seed": int(sd),
                                             "distinct_digests": len(set(vals.values()))}})
    verdict = "violated" if violations else ("held" if len(tables) >= 2 else "inconclusive")
    records.append({"prop": PROP, "index": -1, "case_seed": f"{PROP}:{seed}:cross-process", "family": "cross-process",
                    "params": {"hashseeds": hashseeds}, "sig": "cross-process", "nontrivial": True, "events": events,
                    "verdict": verdict, "reason": "; ".join(notes) if notes else None, "violations": violations[:60],
                    "sample": {"hashseeds": hashseeds, "table_size": len(next(iter(tables.values()))) if tables else 0},
                    "notes": notes})
    return records, {"hashseeds": hashseeds}


if __name__ == "__main__":
    if len(sys.argv) >= 3 and sys.argv[1] == "--table":
        json.dump(table(sys.argv[3] if len(sys.argv) > 3 else "quick"), open(sys.argv[2], "w"))
