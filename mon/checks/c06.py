"""C06 — matrix / table / wrapper views of an MDP agree with its functional definition.
Monitor: boundary recording of every array/table accessor of the real TabularMDP.
Oracle: element-wise comparison with the spec's functions (mon.ref.mdp.Arr built independently)."""
import numpy as np

from mon.gen import mdp as G
from mon.ref import mdp as Rf

PROP = "C06"
CASES = {"quick": 1200, "thorough": 60000}
CASE_TIMEOUT = 60
REQUIRED = ["elements_compared", "from_matrices_roundtrips", "wrapper_roundtrips", "max_states_calls",
            "table_lookups", "inferred_lists_checked"]
RULE = ("random MDP specs of all families x {subclass, QuickTabularMDP} x {explicit, inferred} lists x "
        "mixed hashable label kinds x explicit zero-probability entries (incl. entries naming states "
        "outside the list) x dead-end states x reachable_states(max_states=k); special family "
        "stray-absorbing (a flagged absorbing state with live successors not otherwise reachable). "
        "distinct = structural signature; non-trivial = >=2 states and some stochastic branching or "
        "state-dependent action sets.")
ASSUMPTIONS = ["element-wise oracle reads the spec dictionaries directly (mon.ref.mdp.Arr)",
               "the private vector _unable_to_reach_absorbing is compared when present"]


def _conveyor(case, rng):
    """a state space that is one LONG chain (a two-lane conveyor of 1000-3000 cells): the inferred state list, its prefix under
    max_states and spot-checked array entries"""
    from msdm.core.mdp import QuickTabularMDP
    from msdm.core.distributions import DictDistribution
    n = rng.choice([1100, 1500, 3000])
    slip = rng.choice([0.0, 0.25])

    def nsd(s, a):
        lane, i = s
        if i == n - 1:
            return DictDistribution({s: 1.0})
        if a == "switch":
            return DictDistribution({(1 - lane, i + 1): 1.0})
        return DictDistribution({(lane, i + 1): 1.0}) if slip == 0 else DictDistribution({(lane, i + 1): 1 - slip, (1 - lane, i + 1): slip})
    mdp = QuickTabularMDP(next_state_dist=nsd, reward=lambda s, a, ns: -1.0, actions=lambda s: ("on", "switch"),
                          initial_state_dist=DictDistribution({(0, 0): 1.0}), is_absorbing=lambda s: s[1] == n - 1, discount_rate=1.0)
    case.family = "conveyor"
    case.params = dict(n=n, slip=slip)
    case.nontrivial = True
    case.sig("conveyor", n, slip)
    want = {(0, 0)} | {(l, i) for l in (0, 1) for i in range(1, n)}
    got = case.call("reachable_states", lambda: set(mdp.reachable_states()))
    case.count("inferred_lists_checked")
    case.count("long_chains")
    if got is not case.FAIL:
        case.check(got == want, "state_list!=reachable-closure", lambda: f"conveyor of {n} cells: {len(got)} states listed, {len(want)} reachable")
    k = rng.choice([1, 50, 500])
    pre = case.call("reachable_states(max_states)", lambda: list(mdp.reachable_states(max_states=k)))
    case.count("max_states_calls")
    if pre is not case.FAIL:
        case.check(len(set(pre)) == len(pre) and set(pre) <= want and len(pre) <= k + 2, "max_states:not-a-bounded-subset-of-the-closure",
                   lambda: f"k={k}: {len(pre)} states")
    sl = case.call("state_list", lambda: list(mdp.state_list))
    if sl is not case.FAIL:
        case.check(len(sl) == len(set(sl)) == len(want) and set(sl) == want, "state_list!=reachable-closure", lambda: f"{len(sl)} vs {len(want)}")
        case.count("elements_compared", len(sl))
    for k_ in ("from_matrices_roundtrips", "wrapper_roundtrips", "table_lookups"):
        case.count(k_, 0)


def run_case(case, rng):
    from msdm.core.mdp import TabularMarkovDecisionProcess, QuickTabularMDP, QuickMDP
    from msdm.algorithms import ValueIteration
    from mon.gen import build as Bd

    if rng.random() < (0.012 if case.tier == "quick" else 0.002):
        return _conveyor(case, rng)
    fam = rng.choice(["any", "any", "proper", "sspneg", "zerocycle", "avg", "ghostzero", "ghostzero",
                      "stray"])
    base = {"ghostzero": "any", "stray": "any"}.get(fam, fam)
    n_max = 12 if case.tier == "thorough" and rng.random() < 0.3 else 7
    sp = G.random_spec(rng, base, n_max=n_max, min_states=2 if fam in ("stray", "ghostzero") else 1,
                       near_absorbing=(base == "any"))
    rep = rng.choice(Bd.REPRS)
    if fam not in ("stray", "ghostzero") and rng.random() < 0.1:
        rep = "annotated"       # equal-but-distinct state objects whose step note the reward function reads
    if fam not in ("stray", "ghostzero") and rng.random() < 0.1:
        rep = rng.choice(["dsp_override", "quick_override"])       # models written by subclassing a library class and overriding its public methods
    explicit = rep.endswith("explicit")
    ghost = None
    # dead-end state (no actions) occasionally, explicit lists only (an inferred closure would be fine
    # too, but then nothing can be said about planning)
    if fam == "stray":
        _make_stray(sp, rng)
        rep = rng.choice(["subclass", "quicktabular"])
        explicit = False
    elif not explicit:
        G.restrict_to_closure(sp, rng, drop_outside_zero=(fam != "ghostzero"))
    if fam == "ghostzero":
        ghost = _add_ghost_zero(sp, rng, explicit)
    if fam in ("any", "proper") and explicit and len(sp.states) >= 2 and rng.random() < 0.4:
        # a DEAD END: an unflagged state that offers no action at all (it is not absorbing by definition)
        init_states = {s_ for s_, p_ in sp.init if p_ > 0}
        cand = [s_ for s_ in sp.states if s_ not in sp.flag and s_ not in init_states]
        if cand:
            de = rng.choice(cand)
            for a_ in sp.acts[de]:
                sp.P.pop((de, a_), None)
            sp.acts[de] = ()
            sp.meta["dead_end"] = repr(de)
    states_only = False
    if explicit and rep == "subclass_explicit" and rng.random() < 0.35:
        # the state list is given explicitly, the action list is left to be inferred - from ALL listed states, also
        # those nothing leads to; such a state gets an action that exists nowhere else
        rep, states_only = "subclass_explicit_states", True
        unreachable = [s_ for s_ in sp.states if s_ not in set(G.closure(sp)) and s_ not in sp.flag and sp.acts[s_]]
        if unreachable:
            u = rng.choice(unreachable)
            new_a = "only-here" if sp.meta.get("label_kind") != "int" else 987
            sp.acts[u] = tuple(sp.acts[u]) + (new_a,)
            tgt = rng.choice(sp.states)
            sp.P[(u, new_a)] = [(tgt, 1.0)]
            sp.kind[(u, new_a)] = "dict"
            sp.R[(u, new_a, tgt)] = -1.0
            sp.meta["action_only_in_unreachable_state"] = repr(u)
    case.family = fam
    case.params = dict(rep=rep, gamma=sp.gamma, n=len(sp.states), label_kind=sp.meta.get("label_kind"),
                       ghost=repr(ghost) if ghost is not None else None)
    mdp = Bd.build(sp, rep, shuffle_rng=rng)
    if fam not in ("stray",) and rng.random() < 0.3:
        # two models alive and used ALTERNATELY: this model's transition array is built, then another model's (other sizes,
        # other labels), and only then this model's remaining arrays (they are compared with its own functions below)
        other_sp = G.random_spec(rng, "any", n_max=6)
        G.restrict_to_closure(other_sp, rng)
        other = Bd.build(other_sp, "subclass")

        def alternately():
            mdp.transition_matrix
            other.transition_matrix
            other.reward_matrix
        try:
            alternately()
            case.count("models_built_alternately")
        except BaseException as e_:          # (whatever is wrong with either array is reported by the judged accesses below)
            if type(e_).__name__ == "CaseTimeout" or isinstance(e_, (KeyboardInterrupt, SystemExit)):
                raise

    expected_closure = G.closure(sp)          # absorbing states (initial ones too) not expanded
    closure_expanded_init = _closure_expand_initial_absorbing(sp)
    facts = dict(family=fam, explicit=explicit,
                 initial_live_absorbing=bool(set(closure_expanded_init) - set(expected_closure)))

    S = case.call("state_list", lambda: list(mdp.state_list), facts=facts)
    if S is case.FAIL:
        return
    A = case.call("action_list", lambda: list(mdp.action_list), facts=facts)
    if A is case.FAIL:
        return
    case.check(len(set(S)) == len(S), "state_list-has-duplicates", repr(S))
    case.check(len(set(A)) == len(A), "action_list-has-duplicates", repr(A))
    if explicit:
        case.check(S == list(mdp._state_list), "explicit-state_list-not-kept", repr(S))
        universe = S
        if states_only:
            want_a = {a for s_ in S for a in sp.acts[s_]}
            case.count("inferred_action_lists_on_explicit_states")
            case.check(set(A) == want_a, "inferred-action_list!=actions-of-listed-states",
                       lambda: f"{A!r} vs {sorted(map(repr, want_a))}", **facts)
    else:
        case.count("inferred_lists_checked")
        extra = set(S) - set(expected_closure)
        missing = set(expected_closure) - set(S)
        ok = not extra and not missing
        case.check(ok, "inferred-state_list!=closure",
                   lambda: f"extra={sorted(map(repr, extra))} missing={sorted(map(repr, missing))}",
                   extra_only_from_initial_absorbing=bool(extra) and not missing
                   and set(S) == set(closure_expanded_init), **facts)
        # sorted when sortable
        try:
            srt = sorted(S)
            case.check(S == srt, "sortable-state_list-not-sorted", repr(S))
        except TypeError:
            pass
        if not ok:
            return
        universe = S
        all_actions = []
        for s in S:
            for a in sp.acts[s]:
                if a not in all_actions:
                    all_actions.append(a)
        case.check(set(A) == set(all_actions), "inferred-action_list!=actions-of-listed-states", repr(A))
    if set(A) < set(a for s in S for a in sp.acts[s]):
        return
    if fam == "stray":
        # a positive-probability successor of a flagged absorbing state lies outside the (correct)
        # inferred list: the arrays cannot "hold exactly the numbers the functions return".
        # Observed behaviour is recorded; a KeyError here is the mechanism of finding C06 (ii).
        sf = dict(facts, stray_successors=[repr(t) for t in sp.meta.get("stray_successors", [])])
        T = case.call("transition_matrix", lambda: np.array(mdp.transition_matrix),
                      facts=lambda: _keyerr_facts(sp, S, sf))
        case.count("stray_cases")
        case.nontrivial = True
        case.sig("stray", len(S), rep, sp.gamma)
        return
    # ---- reference arrays over msdm's order --------------------------------------------------------
    arr = _arr_over(sp, S, A)
    case.nontrivial = len(S) >= 2 and (((arr.T > 0).sum(-1) >= 2).any() or len({sp.acts[s] for s in S}) > 1)
    case.sig(fam, rep, len(S), len(A), sp.gamma, tuple(sp.meta.get("abs_kinds", [])),
             sp.meta.get("label_kind"), int((arr.T > 0).sum()), int(arr.avail.sum()), int(arr.absorbing.sum()))
    case.sample = dict(spec=sp.describe(), rep=rep, state_list=[repr(s) for s in S],
                       action_list=[repr(a) for a in A])

    stray_facts = dict(facts)
    if fam == "stray":
        stray_facts["stray_successors"] = [repr(t) for t in sp.meta.get("stray_successors", [])]

    def get(name):
        return case.call(name, lambda: np.array(getattr(mdp, name)), facts=lambda: _keyerr_facts(sp, S, stray_facts))

    T = get("transition_matrix")
    if T is case.FAIL:
        return
    R = get("reward_matrix")
    AM = get("action_matrix")
    SAR = get("state_action_reward_matrix")
    I0 = get("initial_state_vec")
    AB = get("absorbing_state_vec")
    DE = get("dead_end_state_vec")
    if any(x is case.FAIL for x in (R, AM, SAR, I0, AB, DE)):
        return

    def cmp(name, got, ref, exact=True):
        case.count("elements_compared", int(np.size(ref)))
        if got.shape != ref.shape:
            case.fail(f"{name}-shape", f"{got.shape} vs {ref.shape}")
            return
        bad = np.argwhere(got != ref) if exact else np.argwhere(~np.isclose(got, ref, rtol=1e-12, atol=1e-12))
        case.check(len(bad) == 0, f"{name}-differs-from-functions",
                   lambda: f"first diff at {bad[0].tolist()}: got {got[tuple(bad[0])]!r} want {ref[tuple(bad[0])]!r}")

    cmp("transition_matrix", T, arr.T)
    cmp("reward_matrix", R, arr.R)
    cmp("action_matrix", AM.astype(bool), arr.avail)
    cmp("state_action_reward_matrix", SAR, arr.ER, exact=False)
    cmp("initial_state_vec", I0, arr.init)
    cmp("absorbing_state_vec", AB.astype(bool), arr.absorbing)
    cmp("dead_end_state_vec", DE.astype(bool), ~arr.avail.any(-1))
    if hasattr(mdp, "_unable_to_reach_absorbing"):
        U = np.array(mdp._unable_to_reach_absorbing)
        ref = ~arr.can_reach_absorbing() if sp.gamma == 1.0 else np.zeros(len(S), dtype=bool)
        cmp("unable_to_reach_absorbing", U.astype(bool), ref)
    RS = case.call("reachable_state_vec", lambda: np.array(mdp.reachable_state_vec))
    if RS is not case.FAIL and not facts["initial_live_absorbing"]:
        cmp("reachable_state_vec", RS.astype(bool), np.array([s in set(expected_closure) for s in S]))
    for name in ("transition_matrix", "reward_matrix"):
        case.check(not getattr(mdp, name).flags.writeable, "array-writeable", name)

    # ---- tables index to the same numbers by keys -------------------------------------------------
    def tbl():
        tt, rt, srt = mdp.transition_table, mdp.reward_table, mdp.state_action_reward_table
        for _ in range(12):
            i, j, k = rng.randrange(len(S)), rng.randrange(len(A)), rng.randrange(len(S))
            case.count("table_lookups", 4)
            case.check(tt[S[i]][A[j]][S[k]] == arr.T[i, j, k], "transition_table-lookup",
                       f"{S[i]!r},{A[j]!r},{S[k]!r}")
            case.check(tt[S[i], A[j], S[k]] == arr.T[i, j, k], "transition_table-lookup-fullkey",
                       f"{S[i]!r},{A[j]!r},{S[k]!r}")
            case.check(rt[S[i]][A[j]][S[k]] == arr.R[i, j, k], "reward_table-lookup",
                       f"{S[i]!r},{A[j]!r},{S[k]!r}")
            case.check(abs(srt[S[i]][A[j]] - arr.ER[i, j]) <= 1e-12 * max(1, abs(arr.ER[i, j])),
                       "state_action_reward_table-lookup", f"{S[i]!r},{A[j]!r}")
    case.call("tables", tbl)

    # ---- rebuild from the arrays ---------------------------------------------------------------------
    def roundtrip():
        sl, al = mdp.state_list, mdp.action_list
        as_lists = rng.random() < 0.4
        if as_lists:
            # the lists are handed over as plain Python lists that the caller goes on using (appending to) afterwards:
            # the rebuilt MDP must have taken its own snapshot at construction time
            sl, al = list(sl), list(al)
        m2 = TabularMarkovDecisionProcess.from_matrices(
            state_list=sl, action_list=al,
            initial_state_vec=mdp.initial_state_vec, transition_matrix=mdp.transition_matrix,
            action_matrix=mdp.action_matrix, reward_matrix=mdp.reward_matrix,
            absorbing_state_vec=mdp.absorbing_state_vec, discount_rate=mdp.discount_rate)
        if as_lists:
            al.append("ACTION-ADDED-BY-THE-CALLER-LATER")
            if rng.random() < 0.5:
                sl.append("STATE-ADDED-BY-THE-CALLER-LATER")
            case.count("from_matrices_lists_mutated_by_caller_afterwards")
        _same_mdp(case, "from_matrices", mdp, m2, ValueIteration, sp)
        case.count("from_matrices_roundtrips")
    case.call("from_matrices", roundtrip)

    def wrapper():
        m3 = QuickTabularMDP(next_state_dist=mdp.next_state_dist, reward=mdp.reward, actions=mdp.actions,
                             initial_state_dist=mdp.initial_state_dist, is_absorbing=mdp.is_absorbing,
                             discount_rate=mdp.discount_rate)
        if explicit:
            m3._state_list = mdp._state_list
            if not states_only:
                m3._action_list = mdp._action_list
        _same_mdp(case, "QuickTabularMDP-wrapper", mdp, m3, ValueIteration, sp)
        m4 = QuickMDP(next_state_dist=mdp.next_state_dist, reward=mdp.reward, actions=mdp.actions,
                      initial_state_dist=mdp.initial_state_dist(), is_absorbing=mdp.is_absorbing,
                      discount_rate=mdp.discount_rate)
        case.check(m4.discount_rate == mdp.discount_rate, "QuickMDP-discount", "")
        case.check(dict(m4.initial_state_dist().items()) == dict(mdp.initial_state_dist().items()),
                   "QuickMDP-initial_state_dist", "")
        for s in S:
            case.check(tuple(m4.actions(s)) == tuple(mdp.actions(s)), "QuickMDP-actions", repr(s))
            case.check(bool(m4.is_absorbing(s)) == bool(mdp.is_absorbing(s)), "QuickMDP-is_absorbing", repr(s))
            for a in mdp.actions(s):
                d1 = {k: v for k, v in m4.next_state_dist(s, a).items() if v > 0}
                d2 = {k: v for k, v in mdp.next_state_dist(s, a).items() if v > 0}
                case.check(d1 == d2, "QuickMDP-next_state_dist", f"{s!r},{a!r}")
                for ns in d2:
                    case.check(m4.reward(s, a, ns) == mdp.reward(s, a, ns), "QuickMDP-reward", f"{s!r},{a!r},{ns!r}")
        case.count("wrapper_roundtrips")
    case.call("wrappers", wrapper)

    # ---- reachable_states(max_states=k) ------------------------------------------------------------
    if not facts["initial_live_absorbing"]:
        fresh = Bd.build(sp, rep if not explicit else rep, shuffle_rng=None)
        full = set(expected_closure)
        S0 = {s for s, p in sp.init if p > 0}
        S0_pre = set(S0)
        # (initial states are expanded even when they are flagged absorbing, so they count here too)
        maxsucc = max([len({u for a in sp.acts[s] for u, q in sp.P[(s, a)] if q > 0})
                       for s in (set(full) | S0_pre) if (s not in sp.flag or s in S0_pre)] or [0])
        for k in sorted({0, 1, 2, rng.randint(1, max(1, len(full))), len(full), len(full) + 3}):
            Rk = case.call("reachable_states(max_states)", lambda: set(fresh.reachable_states(max_states=k)))
            case.count("max_states_calls")
            if Rk is case.FAIL:
                break
            case.check(S0 <= Rk <= full, "max_states:not-between-S0-and-closure",
                       lambda: f"k={k} R={sorted(map(repr, Rk))}")
            if len(Rk) < len(full):
                case.check(len(Rk) >= k, "max_states:stopped-early", f"k={k} |R|={len(Rk)} |closure|={len(full)}")
            # the budget binds: expansion stops once k states are known, so at most one more state's successors come on top
            # (and with a budget of 0 nothing is expanded at all)
            bound = len(S0) if k == 0 else max(len(S0), k - 1 + maxsucc)
            case.check(len(Rk) <= bound, "max_states:budget-exceeded", f"k={k} |R|={len(Rk)} bound={bound} |S0|={len(S0)}")
            # prefix-closed: every non-initial member has a listed predecessor
            ok, ok_relaxed = True, True
            for t in Rk - S0:
                if not any(q > 0 and u == t for s in Rk if s not in sp.flag
                           for a in sp.acts[s] for u, q in sp.P[(s, a)]):
                    ok = False
                    # would it be explained by expanding an *initial* absorbing state (finding C06 iii)?
                    if not any(q > 0 and u == t for s in Rk if (s not in sp.flag or s in S0)
                               for a in sp.acts[s] for u, q in sp.P[(s, a)]):
                        ok_relaxed = False
            case.check(ok, "max_states:not-prefix-closed", lambda: f"k={k} R={sorted(map(repr, Rk))}",
                       extra_only_from_initial_absorbing=bool(ok_relaxed and not ok), **facts)


# ---------------------------------------------------------------------------------------------
def _arr_over(sp, S, A):
    """Arr restricted to the listed states; successors outside the list must have probability 0."""
    class _Sub:
        pass
    sub = _Sub()
    sub.states = S
    sub.acts = sp.acts
    sub.P = {k: [(t, q) for t, q in v if q > 0] for k, v in sp.P.items() if k[0] in set(S)}
    sub.R = sp.R
    sub.flag = sp.flag
    sub.init = [(s, p) for s, p in sp.init if p > 0]
    sub.gamma = sp.gamma
    sub.reward = sp.reward
    sub.action_universe = lambda: A
    return Rf.Arr(sub, states=S, actions=A)


def _same_mdp(case, label, m1, m2, ValueIteration, sp):
    case.check(tuple(m1.state_list) == tuple(m2.state_list), f"{label}:state_list-differs",
               lambda: f"{m1.state_list!r} vs {m2.state_list!r}")
    case.check(tuple(m1.action_list) == tuple(m2.action_list), f"{label}:action_list-differs",
               lambda: f"{m1.action_list!r} vs {m2.action_list!r}")
    case.check(m1.discount_rate == m2.discount_rate, f"{label}:discount-differs", "")
    if tuple(m1.state_list) != tuple(m2.state_list) or tuple(m1.action_list) != tuple(m2.action_list):
        return
    for name in ("transition_matrix", "reward_matrix", "action_matrix", "state_action_reward_matrix",
                 "initial_state_vec", "absorbing_state_vec", "reachable_state_vec"):
        a, b = np.array(getattr(m1, name)), np.array(getattr(m2, name))
        case.count("elements_compared", a.size)
        case.check(a.shape == b.shape and np.array_equal(a, b), f"{label}:{name}-differs", "")
    if not (~np.array(m1.action_matrix).astype(bool)).all(-1).any():
        vi = ValueIteration(max_iterations=300, max_residual=1e-9)
        r1, r2 = vi.plan_on(m1), vi.plan_on(m2)
        v1 = np.array([r1.state_value[s] for s in m1.state_list])
        v2 = np.array([r2.state_value[s] for s in m1.state_list])
        case.check(np.allclose(v1, v2, rtol=1e-12, atol=1e-12), f"{label}:planning-results-differ",
                   lambda: f"{v1.tolist()} vs {v2.tolist()}")
        p1 = np.array([[r1.policy[s][a] for a in m1.action_list] for s in m1.state_list])
        p2 = np.array([[r2.policy[s][a] for a in m1.action_list] for s in m1.state_list])
        case.check(np.array_equal(p1, p2), f"{label}:planned-policy-differs", "")
        if sp.gamma < 1.0 and all(v_ <= 0 for v_ in sp.R.values()):
            # ... and a planner that walks the FUNCTIONS (next_state_dist / actions / reward), not the arrays (zero heuristic,
            # admissible for costs): it must run on the rebuilt model too and, where both runs converge, report the same value
            # (the ORDER in which successors are listed may differ between the two, so only converged values are compared)
            from msdm.algorithms import LAOStar
            try:
                q1 = LAOStar(heuristic=lambda s: 0.0, seed=0, max_lao_star_iterations=60).plan_on(m1)
            except BaseException as e_:
                if type(e_).__name__ == "CaseTimeout" or isinstance(e_, (KeyboardInterrupt, SystemExit)):
                    raise
                q1 = None
            if q1 is not None:
                try:
                    q2 = case.call(f"LAOStar.plan_on({label})", LAOStar(heuristic=lambda s: 0.0, seed=0, max_lao_star_iterations=60).plan_on, m2,
                                   expect=(AssertionError,))
                except AssertionError as e_:
                    import traceback as _tb
                    frames_ = [fr.name for fr in _tb.extract_tb(e_.__traceback__)]
                    if frames_ and frames_[-1] == "_policy_iteration":
                        # LAO*'s own inner policy iteration gave up on a tie (C03's recorded finding; the order in which the rebuilt
                        # model lists successors differs from the original's): not a statement about the rebuilt model
                        case.count("function_walking_planner_gave_up_on_a_tie")
                        q2 = case.FAIL
                    else:
                        case.fail(f"exception:LAOStar.plan_on({label})", f"AssertionError at {frames_[-3:]!r}")
                        q2 = case.FAIL
                case.count("function_walking_planner_comparisons")
                if q2 is not case.FAIL:
                    same_ = (not (q1.converged and q2.converged)) or abs(q1.initial_value - q2.initial_value) <= 1e-6 * max(1.0, abs(q1.initial_value))
                    listed_ = set(m1.state_list)
                    same_ = same_ and all(s_ in listed_ for s_ in q2.state_value_map)
                    case.check(same_, f"{label}:planning-results-differ",
                               lambda: f"LAO*: {len(q1.state_value_map)} vs {len(q2.state_value_map)} states valued, initial value {q1.initial_value!r} vs {q2.initial_value!r}")


def _closure_expand_initial_absorbing(sp):
    """What a reachability search that expands *initial* absorbing states (but no other absorbing
    state) would list — the shape of known finding C06 (iii)."""
    init = [s for s, p in sp.init if p > 0]
    seen = list(dict.fromkeys(init))
    seen_set = set(seen)
    frontier = list(seen)
    while frontier:
        s = frontier.pop()
        for a in sp.acts[s]:
            for t, q in sp.P[(s, a)]:
                if q > 0 and t not in seen_set:
                    seen_set.add(t)
                    seen.append(t)
                    if t not in sp.flag:
                        frontier.append(t)
    return seen


def _make_stray(sp, rng):
    """A flagged absorbing state with live successors that are not otherwise reachable."""
    stray = "STRAY-ONLY-VIA-ABSORBING"
    keep = G.closure(sp)
    cand = [s for s in keep]
    ab = rng.choice(cand)
    sp.flag.add(ab)
    sp.states.append(stray)
    sp.acts[stray] = sp.acts[ab][:1]
    a0 = sp.acts[stray][0]
    sp.P[(stray, a0)] = [(stray, 1.0)]
    sp.kind[(stray, a0)] = "dict"
    sp.R[(stray, a0, stray)] = -1.0
    for a in sp.acts[ab]:
        sp.P[(ab, a)] = [(stray, 0.5), (ab, 0.5)]
        sp.kind[(ab, a)] = "dict"
        sp.R[(ab, a, stray)] = 1.0
        sp.R[(ab, a, ab)] = 0.0
    sp.meta["stray_successors"] = [stray]
    sp.meta["stray_absorbing_is_initial"] = ab in [s for s, p in sp.init if p > 0]
    # restrict the rest to the closure (the stray state stays out of it unless `ab` is initial)
    keepset = set(G.closure(sp))
    for s in list(keepset):
        if s in sp.flag and s != ab:
            for a in sp.acts[s]:
                sp.P[(s, a)] = [(t if t in keepset else s, q) for t, q in sp.P[(s, a)]]
                merged = {}
                for t, q in sp.P[(s, a)]:
                    merged[t] = merged.get(t, 0.0) + q
                sp.P[(s, a)] = list(merged.items())
                sp.kind[(s, a)] = "dict"
    for key in list(sp.P):
        sp.P[key] = [(t, q) for t, q in sp.P[key] if q > 0]
    sp.init = [(s, p) for s, p in sp.init if p > 0]


def _add_ghost_zero(sp, rng, explicit):
    """Explicit zero-probability entries naming a state that is not in the state list."""
    ghost = "GHOST-ZERO-PROB"
    keys = [k for k in sp.P if k[0] in set(G.closure(sp)) and sp.kind[k] == "dict" and k[0] not in sp.flag]
    if not keys:
        keys = [k for k in sp.P if k[0] in set(G.closure(sp)) and k[0] not in sp.flag]
        if not keys:
            return None
    for k in rng.sample(keys, min(len(keys), rng.randint(1, 2))):
        sp.kind[k] = "dict"
        pos = rng.randrange(len(sp.P[k]) + 1)
        sp.P[k] = sp.P[k][:pos] + [(ghost, 0.0)] + sp.P[k][pos:]
        sp.R[(k[0], k[1], ghost)] = 3.0
    if rng.random() < 0.3:
        sp.init = list(sp.init) + [(ghost, 0.0)]
        sp.init_kind = "dict"
    return ghost


def _keyerr_facts(sp, S, facts):
    f = dict(facts)
    exp = set(_closure_full(sp))
    f["outside_list_but_reachable_via_absorbing"] = sorted(repr(t) for t in exp - set(S))
    return f


def _closure_full(sp):
    return G.closure(sp, expand_absorbing=True)



def parent_phase(tier, seed, jobs, tmp, envf):
    """thorough tier: the repository's own test-suite under the ambient 'arrays' monitor"""
    if tier != "thorough":
        return [], None
    from mon.probe.ambient import run_ambient
    rec = run_ambient({"arrays"}, tmp, envf)
    rec["prop"] = PROP
    return [rec], {"ambient_test_suite": rec["sample"]}
