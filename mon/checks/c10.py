"""C10 — TD learners' Q-tables are exactly their update rule applied to the experience.
Monitor: a TDLearningEventListener probe. At every end_of_timestep it reads (s, a, r, ns[, na]) and
the live Q-table(s) from the learner's locals(), validates the step against the spec, advances a
SHADOW Q-table by the published rule and compares the whole live table with the shadow at that step.
Oracle: shadow table == final q_values; bounds; greedy policy."""
import math
import numpy as np

from mon.case import Inconclusive
from mon.gen import mdp as G

PROP = "C10"
CASES = {"quick": 800, "thorough": 80000}
CASE_TIMEOUT = 60
REQUIRED = ["steps_validated", "shadow_updates_compared", "episodes_observed", "learner:QLearning",
            "learner:SARSA", "learner:ExpectedSARSA", "learner:DoubleQLearning", "policy_states_checked"]
RULE = ("random proper MDP specs (flagged absorbing states, state-dependent action sets, stochastic branching, "
        "rewards of either sign, gamma in {.5,.9,.99,1}) x learner in {Q, SARSA, ExpectedSARSA, DoubleQ} x step "
        "sizes {0,.1,.5,1} x epsilon {0,.05,.5,1} x temperature {0,.5,5} x constant/callable initial Q x "
        "episodes 1-30 x seeds; initial distributions with absorbing mass. distinct = structural signature incl. "
        "learner/params/seed; non-trivial = >=3 experienced steps on a branching MDP.")
ASSUMPTIONS = ["shadow table implements the update rules as published in the class docstrings",
               "at states the run never touched the policy may be uniform over all actions or over the maximisers of the initial Q (the two coincide for constant initial Q)"]


def _bandit(rng):
    """one decision state with 2-3 arms that pay the same and end the episode"""
    sp = G.Spec()
    sp.family = "bandit-near-tie"
    sp.states = ["start", "end"]
    arms = rng.sample(["x", "y", "z"], rng.randint(2, 3))
    r = float(rng.choice([1, 2, -1, 5]))
    sp.acts = {"start": tuple(arms), "end": (arms[0],)}
    for a in arms:
        sp.P[("start", a)] = [("end", 1.0)]
        sp.kind[("start", a)] = "dict"
        sp.R[("start", a, "end")] = r
    sp.P[("end", arms[0])] = [("end", 1.0)]
    sp.kind[("end", arms[0])] = "dict"
    sp.R[("end", arms[0], "end")] = 0.0
    sp.flag = {"end"}
    sp.init = [("start", 1.0)]
    sp.gamma = rng.choice([0.9, 1.0])
    sp.meta["abs_kinds"] = ["zero"]
    return sp


def _long_walk(rng):
    """a corridor walked at random (exploration rate 1): one episode lasts TENS OF THOUSANDS of steps"""
    n = rng.choice([130, 150, 170])
    sp = G.Spec()
    sp.family = "long-walk"
    sp.states = list(range(n + 1))
    for i in range(n + 1):
        sp.acts[i] = ("L", "R")
        for a, t in (("L", max(i - 1, 0)), ("R", min(i + 1, n))):
            t = i if i == n else t
            sp.P[(i, a)] = [(t, 1.0)]
            sp.kind[(i, a)] = "dict"
            sp.R[(i, a, t)] = 0.0 if i == n else -1.0
    sp.flag = {n}
    sp.init = [(0, 1.0)]
    sp.gamma = rng.choice([0.9, 0.99])
    sp.meta["abs_kinds"] = ["zero"]
    return sp


def run_case(case, rng):
    from msdm.algorithms import tdlearning as td
    from mon.gen import build as Bd

    n_max = 10 if case.tier == "thorough" and rng.random() < 0.3 else 6
    near_tie = rng.random() < 0.15
    long_walk = rng.random() < (0.012 if case.tier == "quick" else 0.001)
    if long_walk:
        sp, near_tie = _long_walk(rng), False
        case.count("episodes_of_tens_of_thousands_of_steps")
    elif near_tie:
        sp = _bandit(rng)
    else:
        sp = G.random_spec(rng, "proper", n_max=n_max, allow_implicit=False,
                           reward_scale=rng.choice([1.0, 1.0, 1.0, 100.0]))
    if rng.random() < 0.3 and sp.flag and not long_walk:
        ab = rng.choice(sorted(sp.flag, key=repr))
        cur = [s for s, p in sp.init if p > 0]
        if ab not in cur:
            cur.append(ab)
        sp.init = list(zip(cur, G.rand_probs(rng, len(cur))))
        sp.init_kind = "dict"
    G.restrict_to_closure(sp, rng)
    sp.init = [(s, p) for s, p in sp.init if p > 0]
    mdp = Bd.build(sp, rng.choice(["subclass", "quicktabular"]))
    gamma = sp.gamma
    train_target = mdp
    if rng.random() < 0.2:
        # an environment WRAPPER (gym style): it changes the dynamics of the model it wraps by defining the public model
        # functions itself and forwards every other attribute to the wrapped model. What the learner is trained on is the wrapper.
        import copy as _copy
        inner_sp = _copy.deepcopy(sp)
        for s_ in inner_sp.states:
            al = list(inner_sp.acts.get(s_, ()))
            if len(al) >= 2 and s_ not in inner_sp.flag:
                rot = al[1:] + al[:1]
                oldP = {a_: (inner_sp.P[(s_, a_)], inner_sp.kind[(s_, a_)]) for a_ in al}
                oldR = {(a_, t_): inner_sp.R.get((s_, a_, t_), 0.0) for a_ in al for t_, _ in inner_sp.P[(s_, a_)]}
                for a_, b_ in zip(al, rot):
                    inner_sp.P[(s_, a_)], inner_sp.kind[(s_, a_)] = oldP[b_]
                    for t_, _ in oldP[b_][0]:
                        inner_sp.R[(s_, a_, t_)] = oldR[(b_, t_)]
        inner = Bd.build(inner_sp, "subclass")
        shown = mdp

        class Rewired:
            def __init__(self_, inner_): self_._inner = inner_
            def __getattr__(self_, name_): return getattr(self_._inner, name_)
            def next_state_dist(self_, s, a): return shown.next_state_dist(s, a)
            def reward(self_, s, a, ns): return shown.reward(s, a, ns)
            def actions(self_, s): return shown.actions(s)
            def is_absorbing(self_, s): return shown.is_absorbing(s)
            def initial_state_dist(self_): return shown.initial_state_dist()
        train_target = Rewired(inner)
        case.count("learners_trained_on_a_forwarding_wrapper")
    learner_name = rng.choice(["QLearning", "SARSA", "ExpectedSARSA", "DoubleQLearning"])
    case.count(f"learner:{learner_name}")
    alpha = rng.choice([0.0, 0.1, 0.5, 0.5, 1.0, 0.9])
    eps = rng.choice([0.0, 0.05, 0.5, 1.0])
    temp = rng.choice([0.0, 0.0, 0.5, 5.0])
    episodes = rng.randint(1, 30 if case.tier == "thorough" else 15)
    if near_tie:
        # equally paid arms pulled a different number of times under a large step size: Q-values that differ
        # only in the 9th-12th digit, so "exactly the maximal-Q actions" is a sharp statement
        alpha, eps, temp, episodes = rng.choice([0.9, 0.99, 0.8]), 1.0, 0.0, rng.randint(25, 45)
    if long_walk:
        alpha, eps, temp, episodes = 0.5, 1.0, 0.0, 1
    seed = rng.choice([0, 1, 7, rng.randrange(2 ** 31)])
    ruled_out = (not near_tie) and (not long_walk) and rng.random() < 0.12
    if ruled_out:
        eps, temp = 0.0, 0.0          # a greedy learner whose initial table rules some actions out (-inf), whichever learner it is
    if rng.random() < 0.5 and not ruled_out:
        q0c = rng.choice([0.0, 1.0, -2.0, 10.0])
        initial_q = q0c
        q0 = lambda s, a: q0c
        q0desc = q0c
    else:
        tbl = {(s, a): rng.choice([0.0, 1.0, -1.0, 3.0, 0.5]) for s in sp.states for a in sp.acts[s]}
        if eps == 0.0 and temp == 0.0:
            # a heuristic that rules an action out: -inf for one action of a state (never taken by a greedy learner; with a
            # softmax temperature the library's expectation computes 0 * -inf = nan on the unchanged tree - outside C10's
            # "rewards / values of either sign", not used here)
            for s_ in sp.states:
                if len(sp.acts[s_]) >= 2 and s_ not in sp.flag and rng.random() < 0.3:
                    tbl[(s_, rng.choice(list(sp.acts[s_])))] = float("-inf")
        initial_q = lambda s, a: tbl[(s, a)]
        q0 = initial_q
        q0desc = "callable"
    case.family = learner_name
    case.params = dict(gamma=gamma, n=len(sp.states), step_size=alpha, rand_choose=eps, softmax_temp=temp,
                       episodes=episodes, seed=seed, initial_q=q0desc)
    init_support = {s for s, p in sp.init}

    def init_row(s):
        return {a: (0.0 if s in sp.flag else float(q0(s, a))) for a in sp.acts[s]}

    class Shadow(dict):
        def row(self, s):
            if s not in self:
                self[s] = init_row(s)
            return self[s]

    sh1, sh2 = Shadow(), Shadow()
    state = dict(prev_ns=None, steps=0, episodes=0, ep_steps=0)
    facts = dict(learner=learner_name)

    def eps_softmax(row):
        acts = list(row)
        if temp == 0.0:
            m = max(row.values())
            best = [a for a in acts if row[a] == m]
            sm = {a: (1.0 / len(best) if a in best else 0.0) for a in acts}
        else:
            mx = max(q / temp for q in row.values())
            w = {a: math.exp(row[a] / temp - mx) for a in acts}
            z = sum(w.values())
            sm = {a: w[a] / z for a in acts}
        return {a: eps / len(acts) + (1 - eps) * sm[a] for a in acts}

    def compare_tables(live, shadow, label):
        for s in list(live.keys()):
            row = dict.__getitem__(live, s)
            ref = shadow.row(s)
            for a, v in row.items():
                if not (a in ref and (v == ref[a] or abs(v - ref[a]) <= 1e-12 * max(1.0, abs(ref[a])))):
                    case.fail("online:live-Q-table-differs-from-update-rule",
                              f"{label} step {state['steps']}: q[{s!r}][{a!r}]={v!r} shadow={ref.get(a)!r}",
                              absorbing_state=bool(s in sp.flag), **facts)
                    return False
        return True

    class Probe(td.EpisodeRewardEventListener):
        """extends the learners' DEFAULT listener (so that event_listener_results is the library's own) and adds the probes"""
        def __init__(self):
            td.EpisodeRewardEventListener.__init__(self)
            if not state.get("warmup"):
                state["ep_reward_sums"] = []
                state["ep_acc"] = 0.0

        def end_of_timestep(self, lv):
            td.EpisodeRewardEventListener.end_of_timestep(self, lv)
            if state.get("warmup"):
                return
            state["ep_acc"] = state.get("ep_acc", 0.0) + lv["r"]
            s, a, r, ns = lv["s"], lv["a"], lv["r"], lv["ns"]
            state["steps"] += 1
            state["ep_steps"] += 1
            case.count("steps_validated")
            ok = (s in sp.acts and s not in sp.flag and a in sp.acts[s] and sp.succ(s, a).get(ns, 0) > 0
                  and r == sp.reward(s, a, ns))
            if not ok:
                case.fail("experienced-step-is-not-a-real-transition", f"step {state['steps']}: {(s, a, r, ns)!r}", **facts)
                return
            if state["ep_steps"] == 1:
                if s not in init_support:
                    case.fail("episode-does-not-start-in-initial-support", repr(s), **facts)
            elif state["prev_ns"] != s:
                case.fail("consecutive-steps-do-not-chain", f"prev ns {state['prev_ns']!r} then s {s!r}", **facts)
            state["prev_ns"] = ns
            case.count("shadow_updates_compared")
            if learner_name == "DoubleQLearning":
                q1, q2 = lv["q1"], lv["q2"]
                r1, r2 = sh1.row(s), sh2.row(s)
                n1, n2 = sh1.row(ns), sh2.row(ns)
                m1 = max(n1.values())
                m2 = max(n2.values())
                cand1 = [r1[a] + alpha * (r + gamma * n2[x] - r1[a]) for x in n1 if n1[x] == m1]
                cand2 = [r2[a] + alpha * (r + gamma * n1[x] - r2[a]) for x in n2 if n2[x] == m2]
                l1, l2 = dict.__getitem__(q1, s)[a], dict.__getitem__(q2, s)[a]
                tol = lambda x, y: abs(x - y) <= 1e-12 * max(1.0, abs(y))
                via1 = [c for c in cand1 if tol(l1, c) and tol(l2, r2[a])]
                via2 = [c for c in cand2 if tol(l2, c) and tol(l1, r1[a])]
                if via1 or via2:
                    # (both shadow entries take the live values they were just verified against: when the two tables hold the same
                    # number the update cannot be attributed to one of them, and a shadow that is one ulp off changes later arg-max ties)
                    r1[a], r2[a] = l1, l2
                else:
                    case.fail("online:double-q-update-matches-neither-table-rule",
                              f"step {state['steps']}: q1={l1!r} q2={l2!r} shadow=({r1[a]!r},{r2[a]!r}) cand1={cand1!r} cand2={cand2!r} "
                              f"s={s!r} a={a!r} r={r!r} ns={ns!r} shadow rows at ns: {n1!r} / {n2!r}; live rows at ns: "
                              f"{dict(dict.__getitem__(q1, ns))!r} / {dict(dict.__getitem__(q2, ns))!r}", **facts)
                    return
                if not long_walk or state["steps"] % 499 == 0:        # (the whole live table at every step; every 499th on the long walk)
                    compare_tables(q1, sh1, "q1")
                    compare_tables(q2, sh2, "q2")
                return
            q = lv["q"]
            row, nrow = sh1.row(s), sh1.row(ns)
            if learner_name == "QLearning":
                target = r + gamma * max(nrow.values())
            elif learner_name == "SARSA":
                na = lv["na"]
                if na not in nrow:
                    case.fail("sarsa-next-action-not-available", f"{na!r} at {ns!r}", **facts)
                    return
                target = r + gamma * nrow[na]
            else:
                d = eps_softmax(nrow)
                target = r + gamma * sum(nrow[x] * p for x, p in d.items() if p > 0)
            row[a] = row[a] + alpha * (target - row[a])
            if not long_walk or state["steps"] % 499 == 0:
                compare_tables(q, sh1, "q")

        def end_of_episode(self, lv):
            td.EpisodeRewardEventListener.end_of_episode(self, lv)
            if state.get("warmup"):
                return
            state["episodes"] += 1
            state["ep_steps"] = 0
            state["ep_reward_sums"].append(state.get("ep_acc", 0.0))
            state["ep_acc"] = 0.0
            case.count("episodes_observed")

    cls = getattr(td, learner_name)
    from mon import defaults as Dflt
    tkw, _om = Dflt.rely_on_defaults(case, rng, "TD", dict(episodes=episodes, step_size=alpha, rand_choose=eps, softmax_temp=temp,
                                                         initial_q=initial_q, seed=seed))
    learner = cls(event_listener_class=Probe, **tkw)
    Dflt.in_force(case, "TD", learner, passed=tkw, learner=learner_name)
    if rng.random() < 0.2 and not near_tie and not long_walk:
        # the same learner object is first trained on a sibling problem (one more absorbing state)
        import copy
        sib = copy.deepcopy(sp)
        extra = [s for s in sib.states if s not in sib.flag and s not in init_support]
        if extra:
            sib.flag = set(sib.flag) | {rng.choice(extra)}
            state["warmup"] = True
            r0_ = case.call(f"{learner_name}.train_on(sibling)", learner.train_on, Bd.build(sib, "subclass"), facts=facts)
            if r0_ is not case.FAIL and rng.random() < 0.7:
                # ... and the sibling's result is USED (its policy read at every state) before the learner is trained again
                case.call("policy.action_dist(sibling's result)", lambda: [r0_.policy.action_dist(s_) for s_ in sib.states], facts=facts)
                case.count("earlier_results_read_before_reuse")
            sh1.clear()
            sh2.clear()
            state.update(prev_ns=None, steps=0, episodes=0, ep_steps=0, warmup=False)
            case.count("learner_reused")
    res = case.call(f"{learner_name}.train_on", learner.train_on, train_target, facts=facts)
    if res is case.FAIL:
        return
    if rng.random() < 0.15 and not near_tie and not long_walk:
        # the learner goes on to another problem (opposite rewards, same labels) AFTER this result was returned: the result
        # judged below - Q-table and policy - is the one returned for THIS problem
        import copy as _copy2
        later = _copy2.deepcopy(sp)
        for k_ in later.R:
            later.R[k_] = -later.R[k_] + 1.0
        state["warmup"] = True
        r_later = case.call(f"{learner_name}.train_on(another problem afterwards)", learner.train_on, Bd.build(later, "subclass"), facts=facts)
        if r_later is not case.FAIL:
            case.call("policy.action_dist(later result)", lambda: [r_later.policy.action_dist(s_) for s_ in later.states], facts=facts)
        state["warmup"] = False
        case.count("results_judged_after_the_learner_was_reused")
    branch = any(len(sp.succ(s, a)) >= 2 for s in sp.states for a in sp.acts[s]) or any(len(sp.acts[s]) >= 2 for s in sp.states)
    case.nontrivial = state["steps"] >= 3 and branch
    case.sig(learner_name, len(sp.states), gamma, alpha, eps, temp, episodes, seed, q0desc, state["steps"])
    case.sample = dict(spec=sp.describe(), config=case.params, steps=state["steps"], episodes=state["episodes"])
    case.check(state["episodes"] == episodes, "episode-count-differs", f"{state['episodes']} vs {episodes}", **facts)

    # ---- the default listener's own result: one total per episode, equal to the rewards the probe saw ------------------
    er = case.call("event_listener_results.episode_rewards", lambda: list(res.event_listener_results.episode_rewards), facts=facts)
    if er is not case.FAIL:
        want_er = state.get("ep_reward_sums", [])
        case.count("episode_reward_lists_compared")
        case.check(len(er) == len(want_er) and all(abs(float(x) - float(y)) <= 1e-9 * max(1.0, abs(y)) for x, y in zip(er, want_er)),
                   "episode_rewards!=per-episode-sums-of-experienced-rewards", lambda: f"{er!r} vs {want_er!r}", **facts)
    # ---- final table ---------------------------------------------------------------------------------
    Q = res.q_values
    rvals = [sp.reward(s, a, t) for (s, a), lst in sp.P.items() for t, p in lst if p > 0 and s not in sp.flag]
    q0vals = [float(q0(s, a)) for s in sp.states if s not in sp.flag for a in sp.acts[s]] or [0.0]
    for s in list(Q.keys()):
        row = dict.__getitem__(Q, s) if isinstance(Q, dict) else Q[s]
        if learner_name == "DoubleQLearning":
            ref = {a: 0.5 * sh1.row(s)[a] + 0.5 * sh2.row(s)[a] for a in sp.acts[s]}
        else:
            ref = sh1.row(s)
        for a, v in row.items():
            case.check(a in ref and (v == ref[a] or abs(v - ref[a]) <= 1e-12 * max(1.0, abs(ref[a]))), "final-q_values!=rule-folded-over-experience",
                       lambda: f"q[{s!r}][{a!r}]={v!r} shadow={ref.get(a)!r}", absorbing_state=bool(s in sp.flag), **facts)
            if s in sp.flag:
                case.check(v == 0.0, "absorbing-state-Q!=0", f"q[{s!r}][{a!r}]={v!r}", absorbing_state=True,
                           initial_state=bool(s in init_support), **facts)
            if gamma < 1 and rvals:
                lo = min(min(q0vals), min(rvals) / (1 - gamma), 0.0)
                hi = max(max(q0vals), max(rvals) / (1 - gamma), 0.0)
                case.check(lo - 1e-9 * max(1, abs(lo)) <= v <= hi + 1e-9 * max(1, abs(hi)), "Q-outside-interval",
                           f"q[{s!r}][{a!r}]={v!r} not in [{lo},{hi}]", absorbing_state=bool(s in sp.flag), **facts)
    # ---- policy -------------------------------------------------------------------------------------------
    touched = set(Q.keys()) if learner_name == "DoubleQLearning" else (set(sh1) | set(Q.keys()))
    for s in sp.states:
        case.count("policy_states_checked")
        d = case.call("policy.action_dist", res.policy.action_dist, s, facts=facts)
        if d is case.FAIL:
            continue
        got = {a: p for a, p in d.items() if p > 0}
        allowed = []
        if s in Q.keys():
            # the statement is about the RETURNED Q-table (already compared with the shadow above)
            row = dict(Q[s])
            m = max(row.values())
            allowed.append({a for a in row if row[a] == m})
        else:
            allowed.append(set(sp.acts[s]))
            ir = init_row(s)
            m = max(ir.values())
            allowed.append({a for a in ir if ir[a] == m})
        ok = any(set(got) == al and all(abs(p - 1.0 / len(al)) <= 1e-12 for p in got.values()) for al in allowed)
        case.check(ok, "policy-not-uniform-over-maximal-Q-actions", lambda: f"state {s!r}: {got!r} allowed {allowed!r}",
                   touched=bool(s in touched), **facts)
