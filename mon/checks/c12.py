"""C12 — tables index like nested dictionaries over their field domains.
Monitor: boundary recording of __getitem__/get/keys/items/len/action_dist on real tables.
Oracle: table_resolve, a small model of 'nested dictionaries over field domains, an element of the
outermost domain always wins'."""
import numpy as np

PROP = "C12"
CASES = {"quick": 2500, "thorough": 200000}
CASE_TIMEOUT = 30
REQUIRED = ["full_keys", "nested_keys", "outer_lists", "slices", "foreign_keys", "rows_as_distributions",
            "iteration_checks", "class:Table", "class:ProbabilityTable", "class:StateTable",
            "class:StateActionTable", "class:TabularPolicy"]
RULE = ("random tables of 1-3 fields with domains of size 1-4 drawn from one small shared pool of mixed "
        "hashables (so keys of one field collide with elements / tuples of another) x classes Table, "
        "ProbabilityTable, StateTable, StateActionTable, TabularPolicy x all full keys, nested keys, outer-key "
        "lists (reordered, subsets), full slices/ellipses, foreign keys of every shape. distinct = (class, "
        "shape, domain kinds, collision flags); non-trivial = >=2 fields or a domain of size >=2.")
ASSUMPTIONS = ["oracle = table_resolve (dict-semantics model written from the statement)",
               "foreign keys must raise *some* exception (StateActionIndexError for StateTable/StateActionTable and "
               "top-level TabularPolicy); get() is judged for foreign plain scalars only (tuple-shaped foreign keys raise IndexError out of get())"]

POOL = [0, 1, 2, 3, -1, "a", "b", "s", (0, 1), (1, 0), (0,), ("a", "b"), (0, "a"), None, 2.5, frozenset([0]),
        frozenset(), "0", (1, 2, 3), ()]


class Foreign(Exception):
    pass


def table_resolve(domains, data, selector):
    """Reference: returns ('cell', value) | ('table', domains', data') ; raises Foreign."""
    d0 = domains[0]
    try:
        if selector in d0:
            i = d0.index(selector)
            return _ret(domains[1:], data[i])
    except TypeError:
        pass
    if isinstance(selector, slice) and selector == slice(None):
        return _ret(domains, data)
    if selector is Ellipsis:
        return _ret(domains, data)
    if isinstance(selector, list):
        try:
            idx = [d0.index(e) if e in d0 else _raise() for e in selector]
        except TypeError:
            raise Foreign()
        return _ret([[d0[i] for i in idx]] + list(domains[1:]), data[idx])
    if isinstance(selector, tuple):
        comps = list(selector)
        if Ellipsis in [c for c in comps if c is Ellipsis]:
            k = [i for i, c in enumerate(comps) if c is Ellipsis]
            if len(k) != 1:
                raise Foreign()
            pad = len(domains) - len(comps) + 1
            comps = comps[:k[0]] + [slice(None)] * pad + comps[k[0] + 1:]
        if len(comps) > len(domains):
            raise Foreign()
        index = []
        newdom = []
        for c, dom in zip(comps, domains):
            hit = False
            try:
                hit = c in dom
            except TypeError:
                hit = False
            if hit:
                index.append(dom.index(c))
            elif isinstance(c, slice) and c == slice(None):
                index.append(slice(None))
                newdom.append(dom)
            else:
                raise Foreign()
        newdom.extend(domains[len(comps):])
        return _ret(newdom, data[tuple(index)])
    raise Foreign()


def _raise():
    raise Foreign()


def _ret(domains, data):
    if len(domains) == 0:
        return ("cell", float(data))
    return ("table", [list(d) for d in domains], np.asarray(data))


def _big_tables(case, rng):
    """tables / policies over HUNDREDS of labels (anything that only shows once an internal table, cache or id grows): every
    row read back through every accessor, in a random order, twice"""
    from msdm.core.mdp import TabularPolicy
    from msdm.core.mdp.tables import StateTable
    n, na = rng.choice([260, 300, 400, 700, 1100]), rng.randint(2, 4)
    S = [("s", i) for i in range(n)] if rng.random() < 0.5 else list(range(n))
    A = ["a%d" % j for j in range(na)]
    data = np.array([[float(rng.randint(1, 9)) for _ in A] for _ in S])
    data = data / data.sum(-1, keepdims=True)
    case.family = "big-policy"
    case.params = dict(n=n, actions=na)
    case.nontrivial = True
    case.sig("big", n, na)
    pol = case.call("TabularPolicy.from_state_action_lists", TabularPolicy.from_state_action_lists, state_list=S, action_list=A, data=data.copy())
    sv = case.call("StateTable.from_state_list", StateTable.from_state_list, state_list=S, data=data[:, 0].copy())
    case.count("big_tables")
    if pol is case.FAIL or sv is case.FAIL:
        return
    order = list(range(n))
    bad = []
    for rnd in range(2):
        rng.shuffle(order)
        for i in order:
            s = S[i]
            d = pol.action_dist(s)
            row = [float(d.prob(a)) for a in A]
            if any(abs(x - y) > 1e-15 for x, y in zip(row, data[i])):
                bad.append(("action_dist", s, row, list(data[i])))
            if any(abs(float(pol[s][a]) - data[i, j]) > 1e-15 or abs(float(pol[s, a]) - data[i, j]) > 1e-15 for j, a in enumerate(A)):
                bad.append(("[]", s))
            if float(sv[s]) != data[i, 0]:
                bad.append(("StateTable[]", s))
            case.count("oracle_comparisons", 3)
            if len(bad) > 5:
                break
    case.check(not bad, "big-table:row-read-back-wrongly", lambda: f"{n} states: {bad[:2]!r}")
    keys_ok = list(pol.keys()) == S and len(pol) == n and [k for k, _ in pol.items()] == S
    case.check(keys_ok, "big-table:keys-not-outer-domain-in-order", "")
    for k in ("outer_lists", "slices", "iteration_checks", "get_with_foreign_scalars", "restricted_tables_used"):
        case.count(k, 0)


def run_case(case, rng):
    from msdm.core.table import Table, ProbabilityTable, TableIndex
    from msdm.core.mdp.tables import StateTable, StateActionTable, StateActionIndexError
    from msdm.core.mdp import TabularPolicy

    if rng.random() < (0.03 if case.tier == "quick" else 0.01):
        return _big_tables(case, rng)
    cls_name = rng.choice(["Table", "Table", "ProbabilityTable", "StateTable", "StateActionTable", "TabularPolicy"])
    case.count(f"class:{cls_name}")
    nf = {"StateTable": 1, "StateActionTable": 2, "TabularPolicy": 2}.get(cls_name, rng.randint(1, 3))
    if cls_name == "ProbabilityTable":
        nf = rng.randint(1, 3)
    pool = rng.sample(POOL, rng.randint(5, 9))     # small shared pool -> collisions across fields
    domains = [rng.sample(pool, rng.randint(1, min(4, len(pool)))) for _ in range(nf)]
    shape = tuple(len(d) for d in domains)
    data = np.array([float(rng.randint(-9, 9)) + rng.choice([0.0, 0.5]) for _ in range(int(np.prod(shape)))]).reshape(shape)
    if cls_name in ("ProbabilityTable", "TabularPolicy"):
        data = np.abs(data) + 1.0
        if shape[-1] >= 2 and rng.random() < 0.6:          # entries that are exactly 0 (one-hot rows, excluded actions)
            flat = data.reshape(-1, shape[-1])
            for r_ in range(flat.shape[0]):
                if rng.random() < 0.6:
                    keep = rng.randrange(shape[-1])
                    for c_ in range(shape[-1]):
                        if c_ != keep and rng.random() < 0.6:
                            flat[r_, c_] = 0.0
            data = flat.reshape(shape)
        data = data / data.sum(-1, keepdims=True)
    names = ["f%d" % i for i in range(nf)]
    if cls_name == "Table":
        t = Table(data=data.copy(), table_index=TableIndex(field_names=names, field_domains=domains))
    elif cls_name == "ProbabilityTable":
        t = ProbabilityTable(data=data.copy(), table_index=TableIndex(field_names=names, field_domains=domains))
    elif cls_name == "StateTable":
        t = StateTable.from_state_list(state_list=domains[0], data=data.copy())
    elif cls_name == "StateActionTable":
        t = StateActionTable.from_state_action_lists(state_list=domains[0], action_list=domains[1], data=data.copy())
    else:
        t = TabularPolicy.from_state_action_lists(state_list=domains[0], action_list=domains[1], data=data.copy())
    if cls_name in ("StateTable", "StateActionTable", "TabularPolicy") and rng.random() < 0.3:
        # the dictionary constructors: states in the dictionary's own order; the action order is whatever the table says
        # it is (it is read back and the reference is permuted to it)
        def via_dict():
            if cls_name == "StateTable":
                return StateTable.from_dict({k: float(data[i]) for i, k in enumerate(domains[0])})
            nested = {k: {a: float(data[i, j]) for j, a in enumerate(domains[1])} for i, k in enumerate(domains[0])}
            return (StateActionTable if cls_name == "StateActionTable" else TabularPolicy).from_dict(nested, default_value=0.0)
        t2 = case.call(f"{cls_name}.from_dict", via_dict, facts=dict(cls=cls_name))
        if t2 is not case.FAIL:
            ok_dom = list(t2.table_index.field_domains[0]) == list(domains[0])
            if cls_name != "StateTable":
                act = list(t2.table_index.field_domains[1])
                perm = []
                for a in act:
                    hit = [j for j, b in enumerate(domains[1]) if b == a and type(b) is type(a) and j not in perm]
                    perm.append(hit[0] if hit else None)
                ok_dom = ok_dom and len(act) == len(domains[1]) and None not in perm
                if ok_dom:
                    data = data[:, perm]
                    domains[1] = act
            case.count("tables_built_from_dicts")
            case.check(ok_dom, "from_dict:domains-differ-from-the-dictionary's-keys",
                       lambda: f"{[list(d) for d in t2.table_index.field_domains]!r} vs {domains!r}", cls=cls_name)
            if ok_dom:
                t = t2
    mdp_table = cls_name in ("StateTable", "StateActionTable", "TabularPolicy")
    collide = any(_in(k, domains[0]) for d in domains[1:] for k in d) or \
        any(isinstance(k, tuple) and len(k) == nf and all(_in(c, dom) for c, dom in zip(k, domains)) for k in domains[0])
    case.family = cls_name
    case.params = dict(fields=nf, shape=list(shape), collide=bool(collide))
    case.nontrivial = nf >= 2 or shape[0] >= 2
    case.sig(cls_name, shape, tuple(tuple(type(k).__name__ for k in d) for d in domains), collide)
    case.sample = dict(cls=cls_name, domains=[[repr(k) for k in d] for d in domains], data=data.tolist())
    facts = dict(cls=cls_name, collide=bool(collide))

    def compare(sel, got, label):
        try:
            ref = table_resolve(domains, data, sel)
        except Foreign:
            case.fail(f"{label}:value-returned-for-foreign-key", f"selector {sel!r} -> {got!r}", **facts)
            return
        if ref[0] == "cell":
            ok = not hasattr(got, "table_index") and float(got) == ref[1]
            case.check(ok, f"{label}:wrong-cell", lambda: f"selector {sel!r}: got {got!r} want {ref[1]!r} domains={domains!r}", **facts)
        else:
            if not case.check(hasattr(got, "table_index"), f"{label}:cell-returned-for-partial-key",
                              lambda: f"selector {sel!r}: got {got!r}", **facts):
                return
            gd = [list(d) for d in got.table_index.field_domains]
            case.check(gd == ref[1], f"{label}:sub-table-domains-wrong", lambda: f"selector {sel!r}: {gd!r} want {ref[1]!r}", **facts)
            ga = np.asarray(got)
            case.check(ga.shape == ref[2].shape and np.array_equal(ga, ref[2]), f"{label}:sub-table-data-wrong",
                       lambda: f"selector {sel!r}: {ga.tolist()!r} want {ref[2].tolist()!r}", **facts)

    def lookup(sel, label, expect_foreign=False):
        try:
            got = t[sel]
        except BaseException as e:
            if isinstance(e, (KeyboardInterrupt, SystemExit, MemoryError)) or type(e).__name__ == "CaseTimeout":
                raise
            try:
                table_resolve(domains, data, sel)
                resolvable = True
            except Foreign:
                resolvable = False
            if resolvable:
                case.fail(f"{label}:exception-for-valid-key", f"selector {sel!r}: {type(e).__name__}: {e}", **facts)
            else:
                case.count("oracle_comparisons")
                has_slice = isinstance(sel, slice) or (isinstance(sel, (tuple, list)) and any(isinstance(c, slice) for c in sel))
                if mdp_table and not has_slice:       # a partial slice is not a key: any error will do
                    case.check(isinstance(e, StateActionIndexError), f"{label}:foreign-key-error-is-not-StateActionIndexError",
                               f"selector {sel!r}: {type(e).__name__}", **facts)
            return None
        compare(sel, got, label)
        # the second entry point to indexing: get(selector, default) gives what [] gives for every resolvable selector
        if rng.random() < 0.3:
            try:
                hash(sel) if not isinstance(sel, (list, slice)) else None
                g_ = t.get(sel, "DEFAULT")
            except TypeError:
                g_ = None
            except BaseException as e:
                if isinstance(e, (KeyboardInterrupt, SystemExit, MemoryError)) or type(e).__name__ == "CaseTimeout":
                    raise
                case.fail(f"{label}:get-raises-for-a-key-[]-resolves", f"selector {sel!r}: {type(e).__name__}: {e}", **facts)
                g_ = None
            if g_ is not None:
                case.count("get_compared_with_getitem")
                if isinstance(g_, str):
                    case.fail(f"{label}:get-gives-the-default-for-a-key-[]-resolves", f"selector {sel!r}", **facts)
                else:
                    compare(sel, g_, label + ":get")
        return got

    # ---- keys that EQUAL a label but have another type (1.0, numpy.int64(1), True for 1; numpy.str_ for str) -------------
    def variants(k):
        out = []
        if isinstance(k, bool):
            return out
        if isinstance(k, int):
            out += [float(k), np.int64(k)] + ([True] if k == 1 else []) + ([False] if k == 0 else [])
        elif isinstance(k, float):
            out += [np.float64(k)]
        elif isinstance(k, str):
            out += [np.str_(k)]
        return out
    # (only for outer domains without tuple / frozenset labels: a numpy scalar compared with a tuple broadcasts, so that
    # numpy.int64(0) "equals" the label (0,) - numpy semantics, observed on the unchanged tree, not a subject of C12)
    plain_outer = not any(isinstance(k_, (tuple, list, set, frozenset)) for k_ in domains[0])
    for k in (domains[0] if plain_outer else []):
        for kv in variants(k):
            case.count("equal_keys_of_another_type")
            lookup(kv, "equal-key-of-another-type")
            if nf > 1:
                lookup((kv,) + tuple(rng.choice(d) for d in domains[1:]), "equal-key-of-another-type(full key)")
    # ---- full keys & nested keys (all of them) ---------------------------------------------------------
    import itertools
    for key in itertools.product(*domains):
        case.count("full_keys")
        lookup(key if nf > 1 else key[0], "full-key")
        if nf == 1:
            lookup((key[0],), "full-key-1tuple")
        # nested
        case.count("nested_keys")
        cur_dom, cur_data, cur = domains, data, t
        ok = True
        for depth, k in enumerate(key):
            try:
                cur = cur[k]
            except BaseException as e:
                if type(e).__name__ == "CaseTimeout":
                    raise
                case.fail("nested:exception-for-valid-key", f"key {key!r} depth {depth}: {type(e).__name__}: {e}", **facts)
                ok = False
                break
        if ok:
            case.check(not hasattr(cur, "table_index") and float(cur) == float(data[tuple(d.index(k) for d, k in zip(domains, key))]),
                       "nested:wrong-cell", lambda: f"key {key!r}: got {cur!r}", **facts)
        # partial keys
        for plen in range(1, nf):
            lookup(tuple(key[:plen]), "partial-key")
    # ---- outer-key lists ------------------------------------------------------------------------------------
    d0 = domains[0]
    for _ in range(4):
        case.count("outer_lists")
        sub = rng.sample(d0, rng.randint(1, len(d0)))
        st_ = lookup(list(sub), "outer-list")
        # ... and the restricted table is then USED: indexed by its own keys, iterated, restricted again
        if st_ is not None and hasattr(st_, "table_index"):
            def use_sub():
                bad = []
                for k_ in sub:
                    want_ = data[d0.index(k_)]
                    got_ = st_[k_]
                    if not np.array_equal(np.asarray(got_, dtype=float), np.asarray(want_, dtype=float)):
                        bad.append(("[]", k_))
                    g_ = st_.get(k_, "DEFAULT")
                    if isinstance(g_, str) or not np.array_equal(np.asarray(g_, dtype=float), np.asarray(want_, dtype=float)):
                        bad.append(("get", k_))
                if [k_ for k_, _ in st_.items()] != list(sub) or any(
                        not np.array_equal(np.asarray(v_, dtype=float), np.asarray(data[d0.index(k_)], dtype=float)) for k_, v_ in st_.items()):
                    bad.append(("items", None))
                again = list(reversed(sub))[:max(1, len(sub) - 1)]
                st2 = st_[again]
                if not np.array_equal(np.asarray(st2, dtype=float), np.asarray(data[[d0.index(k_) for k_ in again]], dtype=float)):
                    bad.append(("restricted again", again))
                return bad
            bad_ = case.call("use of a table restricted to a key list", use_sub, facts=facts)
            case.count("restricted_tables_used")
            if bad_ is not case.FAIL:
                case.check(not bad_, "outer-list:restricted-table-answers-wrongly", lambda: f"keys {sub!r} of {d0!r}: {bad_[:3]!r}", **facts)
    # ---- slices / ellipsis -------------------------------------------------------------------------------------
    for sel in (slice(None), Ellipsis, (slice(None),), (Ellipsis,)):
        case.count("slices")
        got = lookup(sel, "slice")
    if nf >= 2:
        k1 = rng.choice(domains[1])
        lookup((slice(None), k1), "slice-then-key")
        lookup((Ellipsis, rng.choice(domains[-1])), "ellipsis-then-key")
        lookup((rng.choice(d0), Ellipsis), "key-then-ellipsis")
    # ---- iteration ---------------------------------------------------------------------------------------------
    case.count("iteration_checks")
    case.check(list(t.keys()) == list(d0), "keys-not-outer-domain-in-order", lambda: f"{list(t.keys())!r}", **facts)
    case.check(len(t) == len(d0), "len-not-outer-domain-size", "", **facts)
    case.check(list(iter(t)) == list(d0), "iter-not-outer-domain-in-order", "", **facts)
    items = case.call("items", lambda: list(t.items()), facts=facts)
    if items is not case.FAIL:
        case.check([k for k, _ in items] == list(d0), "items-keys-not-outer-domain-in-order", "", **facts)
        for (k, v), i in zip(items, range(len(d0))):
            compare_key = d0[i]
            if nf == 1:
                case.check(float(v) == float(data[i]), "items-value-wrong", f"{k!r}", **facts)
            else:
                case.check(np.array_equal(np.asarray(v), data[i]), "items-value-wrong", f"{k!r}", **facts)
    vals = case.call("values", lambda: list(t.values()), facts=facts)
    if vals is not case.FAIL and items is not case.FAIL:
        case.check(len(vals) == len(items) and all(np.array_equal(np.asarray(v), np.asarray(w)) for v, (_, w) in zip(vals, items)),
                   "values-differ-from-items", "", **facts)
    for k in d0:
        g = case.call("get", t.get, k, "DEFAULT", facts=facts)
        if g is not case.FAIL:
            compare(k, g, "get")
    # get() with a plain scalar that is in no domain: the default, i.e. None when the default is left out - never a number
    for fk in ("zz-foreign", 98765, 1.25):
        if any(_in(fk, d) for d in domains):
            continue
        # (MDP tables answer a foreign key with their state/action index error also through get(): not judged here)
        for obj, nm in ([] if cls_name in ("StateTable", "StateActionTable", "TabularPolicy") else [(t, "table")]) + \
                       ([(t[d0[0]], "row")] if nf >= 2 and cls_name in ("ProbabilityTable", "TabularPolicy") else []):
            g0 = case.call(f"{nm}.get(foreign scalar)", obj.get, fk, facts=facts)
            g1 = case.call(f"{nm}.get(foreign scalar, default)", obj.get, fk, "DEFAULT", facts=facts)
            case.count("get_with_foreign_scalars")
            if g0 is not case.FAIL:
                case.check(g0 is None, "get:foreign-key-without-default-does-not-give-None", f"{nm}.get({fk!r}) -> {g0!r}", **facts)
            if g1 is not case.FAIL:
                case.check(isinstance(g1, str) and g1 == "DEFAULT", "get:foreign-key-does-not-give-the-default", f"{nm}.get({fk!r}, 'DEFAULT') -> {g1!r}", **facts)
    # ---- rows of probability tables are distributions -------------------------------------------------------------
    if cls_name in ("ProbabilityTable", "TabularPolicy") and nf >= 2:
        for key in itertools.product(*domains[:-1]):
            case.count("rows_as_distributions")
            row = t
            for k in key:
                row = row[k]
            if cls_name == "TabularPolicy" and rng.random() < 0.5:
                row = t.action_dist(key[0])
            idx = tuple(d.index(k) for d, k in zip(domains, key))
            want = dict(zip(domains[-1], data[idx].tolist()))
            ok = hasattr(row, "prob") and list(row.support) == list(domains[-1])
            case.check(ok, "row-is-not-a-distribution-over-its-domain", lambda: f"key {key!r}: {row!r}", **facts)
            if ok:
                case.check({e: float(p) for e, p in row.items()} == want, "row-probabilities-differ-from-entries",
                           lambda: f"key {key!r}: {dict(row.items())!r} want {want!r}", **facts)
                case.check(all(float(row.prob(e)) == want[e] for e in want), "row-prob()-differs-from-entries", f"{key!r}", **facts)
                fs = "__foreign_scalar__"
                case.check(float(row.prob(fs)) == 0.0, "row-prob(foreign)-not-zero", "", **facts)
    # ---- foreign keys ---------------------------------------------------------------------------------------------------
    foreign = [k for k in POOL if not _in(k, d0)] + ["zz", 99, -7, (9, 9), ("zz",), [99], ["zz", "a"], {"a": 1},
                                                    {1, 2}, 1.5, slice(0, 1), slice(1, None), (slice(0, 1),)]
    hashable0 = [k for k in d0 if not isinstance(k, (set, frozenset))]
    if hashable0:
        fs = frozenset(rng.sample(hashable0, rng.randint(1, len(hashable0))))
        foreign += [fs, (fs,), (fs, Ellipsis), frozenset(), (frozenset(),)]
    if nf >= 2:
        foreign += [(rng.choice(d0), "zz"), (rng.choice(d0), 99), ("zz", rng.choice(domains[1])),
                    tuple(rng.choice(d) for d in domains) + ("extra",)]
        h1 = [k for k in domains[1] if not isinstance(k, (set, frozenset))]
        if h1:
            fs1 = frozenset(rng.sample(h1, rng.randint(1, len(h1))))
            foreign += [(rng.choice(d0), fs1), (rng.choice(d0), frozenset())]
            if hashable0:
                foreign += [(frozenset([hashable0[0]]), rng.choice(domains[1]))]
    for sel in rng.sample(foreign, min(len(foreign), 14)):
        try:
            table_resolve(domains, data, sel)
            continue            # happens to resolve (collision): not foreign
        except Foreign:
            pass
        except TypeError:
            pass
        case.count("foreign_keys")
        lookup(sel, "foreign")
    # nested rows of MDP tables
    if cls_name == "StateActionTable":
        row = t[d0[0]]
        for sel in ("zz", 99, ("zz",)):
            if _in(sel, domains[1]):
                continue
            case.count("foreign_keys")
            try:
                got = row[sel]
                case.fail("foreign:value-returned-for-foreign-key(nested-row)", f"{sel!r} -> {got!r}", **facts)
            except BaseException as e:
                if type(e).__name__ == "CaseTimeout":
                    raise
                case.check(isinstance(e, StateActionIndexError), "foreign:nested-row-error-is-not-StateActionIndexError",
                           f"{sel!r}: {type(e).__name__}", **facts)
    if cls_name == "TabularPolicy":
        row = t[d0[0]]
        for sel in ("zz", 99):
            if _in(sel, domains[1]):
                continue
            case.count("foreign_keys")
            try:
                got = row[sel]
                case.fail("foreign:value-returned-for-foreign-key(policy-row)", f"{sel!r} -> {got!r}", **facts)
            except BaseException as e:
                if type(e).__name__ == "CaseTimeout":
                    raise


def _in(k, dom):
    try:
        return k in dom
    except TypeError:
        return False
