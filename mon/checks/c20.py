"""C20 — built-in domains define well-formed models for every layout and parameter.
Monitor: boundary recording of every model function over the whole state x action space of each
generated instance; ValueIteration(max_iterations=200) as the 'can be planned on' probe.
Oracle: normalisation / closure / finiteness; a 30-line reference of the plain grid world physics."""
import math
import numpy as np

PROP = "C20"
CASES = {"quick": 400, "thorough": 40000}
CASE_TIMEOUT = 120
REQUIRED = ["instances:GridWorld", "instances:WindyGridWorld", "instances:CliffWalking", "instances:Tiger",
            "instances:LoadUnload", "instances:HeavenOrHell", "transitions_checked", "gridworld_physics_checked",
            "planning_probes", "observation_dists_checked"]
RULE = ("random rectangular layouts up to 5x4 over each domain's alphabet (starts anywhere, goals cutting the "
        "grid, 1xn and nx1 grids) x success/wind probabilities {0,.3,.5,1} x step costs / feature rewards x "
        "coherence {0.5,0.85,0.9,1} x sizes 2-8 x discount rates; every (state, action) of every instance is "
        "checked. distinct = (domain, layout, parameters); non-trivial = instance with >=3 listed states.")
ASSUMPTIONS = ["grid-world coordinates: x = column, y = height-1-row",
               "layouts contain at least one start cell (exactly one 's' for heaven-or-hell)"]


def _rand_grid(rng, alphabet, weights, w=None, h=None, must=(), exactly_one=None):
    w = w or rng.randint(1, 5)
    h = h or rng.randint(1, 4)
    if w * h < len(must) + (1 if exactly_one else 0):
        w = max(w, 3)
    cells = [[rng.choices(alphabet, weights)[0] for _ in range(w)] for _ in range(h)]
    pos = [(r, c) for r in range(h) for c in range(w)]
    rng.shuffle(pos)
    if exactly_one:
        for r in range(h):
            for c in range(w):
                if cells[r][c] == exactly_one:
                    cells[r][c] = "."
        r, c = pos.pop()
        cells[r][c] = exactly_one
    for m in must:
        if not any(m in row for row in cells) and pos:
            r, c = pos.pop()
            cells[r][c] = m
    return ["".join(row) for row in cells], w, h


def _big_gridworld(case, rng):
    """a plain grid world of 500-700 cells with a few walls, unit step cost, one goal, undiscounted: "can be built and planned on"
    at a size the small layouts never reach. Reference: breadth-first distances on the layout."""
    from msdm.domains.gridworld.mdp import GridWorld, TERMINALSTATE
    from msdm.algorithms import ValueIteration, PolicyIteration
    w, h = rng.choice([(23, 23), (25, 24), (26, 26), (40, 14)])
    cells = [["." for _ in range(w)] for _ in range(h)]
    for _ in range(rng.randint(1, 12)):
        cells[rng.randrange(h)][rng.randrange(w)] = "#"
    cells[h - 1][0] = "s"
    cells[0][w - 1] = "g"
    rows = ["".join(r_) for r_ in cells]
    case.family = "GridWorld-big"
    case.params = dict(w=w, h=h, walls=sum(r_.count("#") for r_ in rows))
    case.sig("big", tuple(rows))
    case.nontrivial = True
    case.count("big_grid_worlds")
    gw = case.call("GridWorld", GridWorld, tile_array=rows, step_cost=-1, feature_rewards={"g": 0}, absorbing_features=("g",),
                   success_prob=1.0, discount_rate=1.0)
    if gw is case.FAIL:
        return
    # distances to the goal cell over free cells (x = column, y = h-1-row)
    free = {(c, h - 1 - r) for r in range(h) for c in range(w) if rows[r][c] != "#"}
    goal = (w - 1, h - 1)
    dist = {goal: 0}
    frontier = [goal]
    while frontier:
        nxt = []
        for (x, y) in frontier:
            for dx, dy in ((1, 0), (-1, 0), (0, 1), (0, -1)):
                q = (x + dx, y + dy)
                if q in free and q not in dist:
                    dist[q] = dist[(x, y)] + 1
                    nxt.append(q)
        frontier = nxt
    planner = ValueIteration() if rng.random() < 0.7 else PolicyIteration()
    res = case.call(type(planner).__name__ + ".plan_on", planner.plan_on, gw)
    case.count("planning_probes")
    if res is case.FAIL:
        return
    S = [s_ for s_ in gw.state_list if s_ != TERMINALSTATE]
    case.count("transitions_checked", len(S))
    bad = []
    for s_ in S:
        xy = (s_["x"], s_["y"])
        if xy not in free:
            continue          # (wall cells are listed as states too; an agent never stands there and they are not judged)
        # entering the goal costs a step; the goal cell itself leads to the terminal state for free
        want = -float(dist[xy]) if xy in dist else 0.0
        got = float(res.state_value[s_])
        if abs(got - want) > 1e-6 * max(1.0, abs(want)):
            bad.append((xy, got, want))
    case.check(not bad, "planning-on-a-large-layout-gives-wrong-values", lambda: f"{w}x{h}: {len(bad)} cells differ, e.g. {bad[:3]!r}")
    start = (0, 0)
    if start in dist:
        case.check(abs(float(res.initial_value) + dist[start]) <= 1e-6 * max(1, dist[start]), "planning-on-a-large-layout-gives-wrong-values",
                   lambda: f"initial value {res.initial_value!r} vs {-dist[start]}")


def run_case(case, rng):
    if rng.random() < (0.01 if case.tier == "quick" else 0.002):
        for k in ("gridworld_physics_checked", "observation_dists_checked"):
            case.count(k, 0)
        return _big_gridworld(case, rng)
    dom = rng.choice(["GridWorld", "GridWorld", "GridWorld", "WindyGridWorld", "WindyGridWorld", "CliffWalking",
                      "Tiger", "LoadUnload", "HeavenOrHell", "HeavenOrHell"])
    case.family = dom
    case.count(f"instances:{dom}")
    for k in ("gridworld_physics_checked", "observation_dists_checked", "transitions_checked", "planning_probes"):
        case.count(k, 0)
    builder = globals()["_" + dom]
    mdp, params, extra = builder(case, rng)
    case.params = params
    case.sig(dom, repr(sorted(params.items(), key=repr)))
    if mdp is case.FAIL:
        return
    _generic(case, rng, dom, mdp, params, extra)


# ---------------------------------------------------------------------------------------------
def _generic(case, rng, dom, mdp, params, extra):
    from msdm.algorithms import ValueIteration
    facts = dict(domain=dom)
    S = case.call("state_list", lambda: list(mdp.state_list), facts=facts)
    if S is case.FAIL:
        return
    Sset = set(S)
    case.nontrivial = len(S) >= 3
    case.sample = dict(domain=dom, params=params, n_states=len(S))
    case.check(len(Sset) == len(S), "state_list-has-duplicates", "", **facts)
    # closure if absorbing states were expanded (for the stray-absorbing classifier)
    via_abs = _outside_via_absorbing(mdp, S)
    facts["outside_list_but_reachable_via_absorbing"] = sorted(repr(s) for s in via_abs)
    d0 = case.call("initial_state_dist", lambda: dict(mdp.initial_state_dist().items()), facts=facts)
    if d0 is not case.FAIL:
        tot = math.fsum(d0.values())
        case.check(abs(tot - 1) <= 1e-9 and all(p >= 0 for p in d0.values()), "initial-distribution-not-normalised", repr(d0), **facts)
        case.check(all(s in Sset for s, p in d0.items() if p > 0), "initial-state-outside-state_list", repr(d0), **facts)
    is_pomdp = hasattr(mdp, "observation_dist")
    all_actions = []
    for s in S:
        acts = case.call("actions", lambda: list(mdp.actions(s)), facts=facts)
        if acts is case.FAIL:
            continue
        case.check(len(acts) >= 1, "state-without-actions", repr(s), **facts)
        for a in acts:
            if a not in all_actions:
                all_actions.append(a)
            d = case.call("next_state_dist", lambda: list(mdp.next_state_dist(s, a).items()),
                          facts=lambda: dict(facts, state=repr(s), action=repr(a)))
            case.count("transitions_checked")
            if d is case.FAIL:
                continue
            tot = math.fsum(p for _, p in d)
            case.check(abs(tot - 1) <= 1e-9 and all(p >= 0 for _, p in d), "transition-not-normalised",
                       lambda: f"{s!r},{a!r}: {d!r}", **facts)
            for ns, p in d:
                if not p > 0:
                    continue
                inside = ns in Sset
                case.check(inside, "successor-outside-state_list", lambda: f"{s!r} -{a!r}-> {ns!r} (p={p})",
                           state_is_absorbing=bool(mdp.is_absorbing(s)), successor=repr(ns), **facts)
                r = case.call("reward", mdp.reward, s, a, ns, facts=facts)
                if r is not case.FAIL:
                    case.check(isinstance(r, (int, float, np.integer, np.floating)) and math.isfinite(float(r)),
                               "reward-not-finite", lambda: f"{s!r},{a!r},{ns!r}: {r!r}", **facts)
            if extra.get("physics") is not None:
                extra["physics"](case, s, a, d)
    if is_pomdp:
        for a in all_actions:
            for ns in S:
                o = case.call("observation_dist", lambda: list(mdp.observation_dist(a, ns).items()), facts=facts)
                case.count("observation_dists_checked")
                if o is case.FAIL:
                    continue
                tot = math.fsum(p for _, p in o)
                case.check(abs(tot - 1) <= 1e-9 and all(p >= 0 for _, p in o), "observation-distribution-not-normalised",
                           lambda: f"{a!r},{ns!r}: {o!r}", **facts)
    # arrays build and can be planned on
    ok = True
    for name in ("transition_matrix", "reward_matrix", "action_matrix", "initial_state_vec", "absorbing_state_vec") + \
            (("observation_matrix",) if is_pomdp else ()):
        arr = case.call(name, lambda: np.array(getattr(mdp, name)), facts=facts)
        if arr is case.FAIL:
            ok = False
            break
        case.check(bool(np.isfinite(arr.astype(float)).all()), f"{name}-has-non-finite-entries", "", **facts)
    if ok:
        T = np.array(mdp.transition_matrix)
        AM = np.array(mdp.action_matrix).astype(bool)
        sums = T.sum(-1)
        case.check(bool(np.allclose(sums[AM], 1.0, atol=1e-9)), "transition_matrix-rows-not-normalised", "", **facts)
        res = case.call("ValueIteration.plan_on", ValueIteration(max_iterations=200).plan_on, mdp, facts=facts)
        case.count("planning_probes")
        if res is not case.FAIL:
            v = np.array([float(res.state_value[s]) for s in S])
            case.check(not np.isnan(v).any() and not np.isposinf(v).any(), "planning-produced-nan-or-inf", repr(v.tolist()), **facts)


def _outside_via_absorbing(mdp, S):
    """states outside the list that become reachable if absorbing states are expanded too"""
    Sset = set(S)
    seen = set(S)
    frontier = list(S)
    out = set()
    steps = 0
    while frontier and steps < 5000:
        s = frontier.pop()
        steps += 1
        try:
            acts = list(mdp.actions(s))
            for a in acts:
                for ns, p in mdp.next_state_dist(s, a).items():
                    if p > 0 and ns not in seen:
                        seen.add(ns)
                        frontier.append(ns)
                        if ns not in Sset:
                            out.add(ns)
        except BaseException as e:
            if type(e).__name__ == "CaseTimeout":
                raise
    return out


# ---------------------------------------------------------------------------------------------
def _GridWorld(case, rng):
    from msdm.domains.gridworld.mdp import GridWorld, TERMINALSTATE
    from frozendict import frozendict
    rows, w, h = _rand_grid(rng, list(".#sgxa"), [6, 2, 1, 1, 1, 1], must=("s",))
    sp_ = rng.choice([0, 0.3, 1.0, 1.0] * 3 + [1e-10, 1 - 1e-10, 2.0 ** -40])      # and moves that almost never / almost always succeed
    step = rng.choice([-1, 0, -0.5])
    fr = rng.choice([None, {"g": 5, "x": -10, "a": 2}, {"x": -3}])
    absf = rng.choice([("g",), ("g", "x"), ["g"], ["g", "x"]])       # tuples or lists: both are containers of features
    gamma = rng.choice([1.0, 0.95, 0.5])
    params = dict(layout=rows, success_prob=sp_, step_cost=step, feature_rewards=fr, absorbing_features=list(absf),
                  discount_rate=gamma)
    # the reward table may be handed over as a dict, a list / tuple of pairs, a dict view, a zip object or a generator
    fr_rep = rng.choice(["dict", "dict", "pairs", "items", "zip", "generator"]) if fr is not None else "none"
    fr_arg = {"none": None, "dict": fr, "pairs": list(fr.items()) if fr else fr, "items": fr.items() if fr else fr,
              "zip": zip(list(fr), list(fr.values())) if fr else fr,
              "generator": ((k, v) for k, v in fr.items()) if fr else fr}[fr_rep]
    params["feature_rewards_as"] = fr_rep
    from mon import defaults as Dflt
    gkw, _om = Dflt.rely_on_defaults(case, rng, "GridWorld", dict(feature_rewards=fr_arg, absorbing_features=absf, step_cost=step,
                                                                 success_prob=sp_, discount_rate=gamma))
    gw = case.call("GridWorld", GridWorld, tile_array=rows if rng.random() < 0.5 else "\n".join(rows), **gkw)
    if gw is not case.FAIL:
        Dflt.in_force(case, "GridWorld", gw, passed=gkw)
    feat = {}
    for r in range(h):
        for c in range(w):
            feat[(c, h - 1 - r)] = rows[r][c]
    frd = {"g": 0} if fr is None else fr

    def physics(case, s, a, d):
        case.count("gridworld_physics_checked")
        dist = {ns: p for ns, p in d if p > 0}
        if s == TERMINALSTATE:
            case.check(dist == {TERMINALSTATE: 1} and gw.reward(s, a, TERMINALSTATE) == 0, "gridworld:terminal-not-zero-reward-self-loop", repr(dist))
            return
        x, y = s["x"], s["y"]
        if feat[(x, y)] in absf:
            case.check(dist == {TERMINALSTATE: 1}, "gridworld:absorbing-feature-cell-does-not-go-to-terminal", f"{s!r}: {dist!r}")
            case.check(gw.reward(s, a, TERMINALSTATE) == 0, "gridworld:transition-to-terminal-pays-reward", "")
            return
        tx, ty = x + a["dx"], y + a["dy"]
        blocked = not (0 <= tx < w and 0 <= ty < h) or feat[(tx, ty)] == "#" or (tx, ty) == (x, y)
        tgt = frozendict({"x": tx, "y": ty})
        if blocked:
            want = {s: 1.0}
        elif sp_ == 1:
            want = {tgt: 1.0}
        elif sp_ == 0:
            want = {s: 1.0}
        else:
            want = {tgt: sp_, s: 1 - sp_}
        ok = set(dist) == set(want) and all(abs(dist[k] - want[k]) <= 1e-12 for k in want)
        case.check(ok, "gridworld:transition-differs-from-reference-physics",
                   lambda: f"{(x, y)} action {(a['dx'], a['dy'])}: {dist!r} want {want!r} layout {rows!r} success_prob={sp_}")
        for ns in dist:
            exp = step + frd.get(feat[(ns["x"], ns["y"])], 0.0)
            case.check(abs(gw.reward(s, a, ns) - exp) <= 1e-12, "gridworld:reward!=step-cost+entered-cell-feature-reward",
                       lambda: f"{(x, y)}->{(ns['x'], ns['y'])}: {gw.reward(s, a, ns)!r} want {exp!r}")
    if gw is not case.FAIL:
        # the read accessors describe the layout that was passed in
        def accessors():
            bad = []
            cell = lambda x, y: frozendict({"x": x, "y": y})
            where = lambda chars: sorted([(x, y) for (x, y), f in feat.items() if f in chars])
            as_xy = lambda lst: sorted((c_["x"], c_["y"]) for c_ in lst)
            if (gw.width, gw.height) != (w, h):
                bad.append(f"size {(gw.width, gw.height)} vs {(w, h)}")
            if as_xy(gw.walls) != where("#"):
                bad.append("walls")
            if as_xy(gw.initial_states) != where("s"):
                bad.append("initial_states")
            if as_xy(gw.absorbing_states) != where(absf):
                bad.append("absorbing_states")
            lf = {(k["x"], k["y"]): v for k, v in gw.location_features.items()}
            if lf != {k: v for k, v in feat.items() if v != "."}:          # "." is the separator: a cell without a feature
                bad.append("location_features")
            fl = {f: sorted((c_["x"], c_["y"]) for c_ in cells) for f, cells in gw.feature_locations.items()}
            if fl != {f: where(f) for f in set(feat.values()) if f != "."}:
                bad.append("feature_locations")
            if sorted(as_xy([s_ for s_, p_ in gw.initial_state_dist().items() if p_ > 0])) != where("s"):
                bad.append("initial_state_dist support")
            return bad
        bad = case.call("GridWorld accessors", accessors)
        case.count("gridworld_accessor_sets_checked")
        if bad is not case.FAIL:
            case.check(not bad, "gridworld:accessor-disagrees-with-layout", lambda: f"{bad!r} layout {rows!r}")

        # a caller may do what it likes with the lists it was handed (the physics is checked AFTER this)
        def scribble():
            gw.walls.clear()
            gw.absorbing_states.extend(list(gw.initial_states))
            lst = gw.initial_states
            if lst:
                lst.pop()
            gw.walls.append(frozendict({"x": 0, "y": 0}))
        case.call("caller edits the returned lists", scribble)

        # the same cell written with its keys in the other order is the same state
        def key_order():
            bad2 = []
            for s_ in list(gw.state_list)[:12]:
                if s_ == TERMINALSTATE:
                    continue
                s2 = frozendict({"y": s_["y"], "x": s_["x"]})
                for a_ in gw.actions(s_):
                    a2 = frozendict({"dy": a_["dy"], "dx": a_["dx"]}) if rng.random() < 0.5 else frozendict({"dx": a_["dx"], "dy": a_["dy"]})
                    d1 = {k: v for k, v in gw.next_state_dist(s_, a_).items() if v > 0}
                    d2 = {k: v for k, v in gw.next_state_dist(s2, a2).items() if v > 0}
                    if d1 != d2:
                        bad2.append((dict(s_), dict(a_), d1, d2))
            return bad2
        bad2 = case.call("next_state_dist(keys in the other order)", key_order)
        case.count("gridworld_key_order_checks")
        if bad2 is not case.FAIL:
            case.check(not bad2, "gridworld:transition-depends-on-the-key-order-of-an-equal-state", lambda: f"{bad2[:1]!r}")
        # "can be planned on" also by a planner that walks the functions and whatever they list as successors (LAO*): the states it
        # ends up valuing are states of the domain
        if step < 0 and all(v_ <= 0 for v_ in frd.values()) and any(f_ in absf for f_ in feat.values()) and rng.random() < 0.5:
            from msdm.algorithms import LAOStar
            try:       # (whether LAO* itself copes with the layout - unreachable goals, moves that never succeed - is C03's subject)
                lres = LAOStar(heuristic=lambda s_: 0.0, seed=0, max_lao_star_iterations=25).plan_on(gw)
            except Exception:
                lres = None
            case.count("function_walking_planner_probes")
            if lres is not None:
                listed = set(gw.state_list)
                stray = [s_ for s_ in lres.state_value_map if s_ not in listed]
                case.check(not stray, "planner-is-led-to-states-outside-the-state-list", lambda: f"{stray[:3]!r} layout {rows!r} success_prob={sp_}")
        # a grid world written by SUBCLASSING: a closed gate (one more wall) and a pit (one more absorbing cell) added by
        # overriding the public `walls` / `absorbing_states` accessors, the way the class's own physics reads them
        free = [xy for xy, f in sorted(feat.items()) if f == "."]
        if len(free) >= 2 and rng.random() < 0.35:
            gate_xy, pit_xy = rng.sample(free, 2)
            gate, pit = frozendict({"x": gate_xy[0], "y": gate_xy[1]}), frozendict({"x": pit_xy[0], "y": pit_xy[1]})

            class Gated(GridWorld):
                @property
                def walls(self_):
                    return GridWorld.walls.fget(self_) + [gate]

                @property
                def absorbing_states(self_):
                    return GridWorld.absorbing_states.fget(self_) + [pit]
            g2 = case.call("GridWorld subclass(walls / absorbing_states overridden)", Gated, tile_array=rows, **gkw)
            if g2 is not case.FAIL:
                def gated():
                    bad3 = []
                    for s_ in g2.state_list:
                        if s_ == TERMINALSTATE:
                            continue
                        for a_ in g2.actions(s_):
                            d_ = {k: v for k, v in g2.next_state_dist(s_, a_).items() if v > 0}
                            if s_ == pit and d_ != {TERMINALSTATE: 1}:
                                bad3.append(("pit does not absorb", dict(s_), d_))
                            if s_ != gate and gate in d_:
                                bad3.append(("entered the closed gate", dict(s_), dict(a_), d_))
                    return bad3
                bad3 = case.call("next_state_dist(subclass)", gated)
                case.count("gridworld_subclass_accessor_overrides_checked")
                if bad3 is not case.FAIL:
                    case.check(not bad3, "gridworld:physics-ignores-the-model's-own-walls/absorbing_states", lambda: f"{bad3[:2]!r} layout {rows!r}")
    return gw, params, dict(physics=physics if gw is not case.FAIL else None)


def _WindyGridWorld(case, rng):
    from msdm.domains.gridmdp.windygridworld import WindyGridWorld
    rows, w, h = _rand_grid(rng, list(".@$#<>^vx"), [8, 1, 1, 2, 1, 1, 1, 1, 1], must=("@",))
    wp = rng.choice([0, 0.5, 0.5, 1])
    fr = rng.choice(["default", {"x": -10}, {"$": 5, "x": -2}, {}])
    kw = {} if fr == "default" else {"feature_rewards": fr}
    gamma = rng.choice([0.99, 0.9, 1.0])
    params = dict(layout=rows, wind_probability=wp, feature_rewards=fr, discount_rate=gamma)
    from mon import defaults as Dflt
    wkw, _om = Dflt.rely_on_defaults(case, rng, "WindyGridWorld", dict(wind_probability=wp, discount_rate=gamma, **kw))
    m = case.call("WindyGridWorld", WindyGridWorld, grid="\n".join(rows), **wkw)
    if m is not case.FAIL:
        Dflt.in_force(case, "WindyGridWorld", m, passed=wkw)
    return m, params, {}


def _CliffWalking(case, rng):
    from msdm.domains.cliffwalking import CliffWalking
    return case.call("CliffWalking", CliffWalking), {}, {}


def _Tiger(case, rng):
    from msdm.domains.tiger import Tiger
    c = rng.choice([0.5, 0.85, 1, 1.0, 0.0])
    g = rng.choice([0.95, 0.5, 1.0])
    return case.call("Tiger", Tiger, coherence=c, discount_rate=g), dict(coherence=c, discount_rate=g), {}


def _LoadUnload(case, rng):
    from msdm.domains.loadunload import LoadUnload
    n = rng.choice([2, 2, 3, 4, 5, 6, 7, 8])       # (the two-cell corridor often: instances of different sizes follow each other in one process)
    g = rng.choice([0.99, 0.5])
    if rng.random() < 0.1:
        return case.call("LoadUnload()", lambda: LoadUnload()), dict(nstates="default", discount_rate="default"), {}
    return case.call("LoadUnload", lambda: LoadUnload(nstates=n, discount_rate=g)), dict(nstates=n, discount_rate=g), {}


def _HeavenOrHell(case, rng):
    from msdm.domains.heavenorhell import HeavenOrHell
    rows, w, h = _rand_grid(rng, list(".#hgcs"), [6, 2, 1, 1, 1, 0], exactly_one="s")
    c = rng.choice([0.5, 0.9, 1])
    g = rng.choice([0.95, 0.5])
    params = dict(layout=rows, coherence=c, discount_rate=g)
    if rng.random() < 0.1:
        # the documented defaults (built-in grid, coherence .95, discount .95)
        params = dict(layout="default", coherence="default", discount_rate="default")
        return case.call("HeavenOrHell()", lambda: HeavenOrHell()), params, {}
    m = case.call("HeavenOrHell", lambda: HeavenOrHell(coherence=c, discount_rate=g, grid="\n".join(rows)))
    return m, params, {}
