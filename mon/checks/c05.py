"""C05 — A* and breadth-first search return valid minimum-cost / minimum-step paths.
Monitor: boundary recording of plan_on (result, exceptions incl. the algorithm's own assertions).
Oracle: own Dijkstra / BFS levels on the generated digraph (exact integer arithmetic)."""
import numpy as np
import heapq

PROP = "C05"
CASES = {"quick": 4000, "thorough": 300000}
CASE_TIMEOUT = 30
REQUIRED = ["astar_calls", "bfs_calls", "paths_validated", "none_results_validated"]
RULE = ("random digraphs (1-12 nodes, integer costs 0..5, zero-cost edges/cycles, self-loops, several or "
        "unreachable goals, absorbing start) x consistent heuristics (0, exact, 0.5*exact, 0.25*exact) x "
        "tie_breaking {lifo,fifo,random} x seeds x randomize_action_order x 5 presentations (DSP subclass, "
        "QuickMDP(next_state), Deterministic/single-entry Dict/one-element Uniform distributions). distinct "
        "= structural signature; non-trivial = >=3 nodes with a goal reachable in >=2 steps or no goal "
        "reachable from a start with successors.")
ASSUMPTIONS = ["heuristics are finite (nodes that cannot reach a goal get 1+sum(costs), still consistent)",
               "the constructor's own seed/tie-break precondition is respected"]


def gen_big_graph(rng):
    """hundreds of nodes, tens of actions per node, costs 1..30: search frontiers of thousands of entries, most of them superseded"""
    n = rng.choice([150, 300, 450])
    na = rng.choice([20, 40, 60])
    nodes = list(range(n))
    acts = ["a%d" % i for i in range(na)]
    edges = {}
    for s in nodes:
        for a in acts:
            edges[(s, a)] = (rng.randrange(n), rng.randint(1, 30))
    goals = set(rng.sample(nodes, rng.choice([1, 2])))
    start = rng.choice([x for x in nodes if x not in goals])
    return nodes, acts, edges, goals, start


def gen_graph(rng, n_max):
    n = rng.randint(1, n_max)
    labels_kind = rng.choice(["int", "str", "tuple"])
    # label pools that usually contain a FALSY label (0, "", ()): a node is a node whatever bool() says about its name
    if labels_kind == "int":
        nodes = rng.sample(range(n + 3), n)
    elif labels_kind == "str":
        nodes = ["n%d" % i if i else "" for i in rng.sample(range(n + 3), n)]
    else:
        nodes = rng.sample([()] * 1 + [(x, y) for x in range(4) for y in range(4)], n)
    acts = ["a", "b", "c", "d"][:rng.randint(1, 4)]
    dens = rng.choice([0.3, 0.6, 1.0])
    edges = {}
    for s in nodes:
        k = max(1, sum(rng.random() < dens for _ in acts))
        for a in rng.sample(acts, k):
            t = rng.choice(nodes)
            c = rng.choice([0, 0, 1, 1, 2, 3, 5])
            edges[(s, a)] = (t, c)
    if rng.random() < 0.12:
        # huge integer costs that differ by 1: exact integers, but far beyond where a relative float tolerance separates them
        K = rng.choice([10 ** 9, 3 * 10 ** 9, 10 ** 12])
        edges = {k: (t, c + K) for k, (t, c) in edges.items()}
    ng = rng.choice([0, 1, 1, 1, 2, 3])
    goals = set(rng.sample(nodes, min(ng, n)))
    start = rng.choice(nodes)
    return nodes, acts, edges, goals, start


def dijkstra_to_goal(nodes, edges, goals):
    """cost-to-go d(s) to the nearest goal (goals absorbing); inf if none reachable."""
    rev = {}
    for (s, a), (t, c) in edges.items():
        if s in goals:
            continue
        rev.setdefault(t, []).append((s, c))
    dist = {s: float("inf") for s in nodes}
    pq = []
    for g in goals:
        dist[g] = 0
        pq.append((0, repr(g), g))
    heapq.heapify(pq)
    while pq:
        d, _, u = heapq.heappop(pq)
        if d > dist[u]:
            continue
        for s, c in rev.get(u, []):
            if d + c < dist[s]:
                dist[s] = d + c
                heapq.heappush(pq, (d + c, repr(s), s))
    return dist


def bfs_levels(nodes, edges, goals, start):
    level = {start: 0}
    frontier = [start]
    reach = {start}
    while frontier:
        nxt = []
        for s in frontier:
            if s in goals:
                continue
            for (u, a), (t, c) in edges.items():
                if u == s and t not in level:
                    level[t] = level[s] + 1
                    reach.add(t)
                    nxt.append(t)
        frontier = nxt
    return level, reach


def run_case(case, rng):
    from msdm.algorithms.search import AStarSearch, BreadthFirstSearch
    from msdm.core.mdp.deterministic_shortest_path import DeterministicShortestPathProblem
    from msdm.core.mdp import QuickMDP
    from msdm.core.distributions import DictDistribution, UniformDistribution, DeterministicDistribution

    n_max = 12 if case.tier == "thorough" else 9
    nodes, acts, edges, goals, start = gen_graph(rng, n_max)
    pres = rng.choice(["dsp", "quick_next_state", "det", "dict1", "uniform1", "from_matrices"])
    big = rng.random() < (0.012 if case.tier == "quick" else 0.001)
    if big:
        nodes, acts, edges, goals, start = gen_big_graph(rng)
        pres = rng.choice(["dsp", "quick_next_state"])
        case.count("big_dense_graphs")
    actions_of = {s: tuple(a for a in acts if (s, a) in edges) for s in nodes}

    def next_state(s, a):
        return edges[(s, a)][0]

    def reward(s, a, ns):
        return -edges[(s, a)][1]

    def is_abs(s):
        return s in goals

    if pres == "dsp":
        class G(DeterministicShortestPathProblem):
            def next_state(self, s, a): return next_state(s, a)
            def initial_state(self): return start
            def reward(self, s, a, ns): return reward(s, a, ns)
            def actions(self, s): return actions_of[s]
            def is_absorbing(self, s): return is_abs(s)
        prob = G()
    elif pres == "from_matrices":
        # a tabular MDP rebuilt from 0/1 arrays (what TabularMarkovDecisionProcess.from_matrices hands back)
        from msdm.core.mdp import TabularMarkovDecisionProcess
        S_ = list(nodes)
        rng.shuffle(S_)
        A_ = list(acts)
        si_ = {s: i for i, s in enumerate(S_)}
        T_ = np.zeros((len(S_), len(A_), len(S_)))
        R_ = np.zeros((len(S_), len(A_), len(S_)))
        AM_ = np.zeros((len(S_), len(A_)))
        for (s, a), (t, c) in edges.items():
            T_[si_[s], A_.index(a), si_[t]] = 1.0
            R_[si_[s], A_.index(a), si_[t]] = -c
            AM_[si_[s], A_.index(a)] = 1.0
        init_ = np.zeros(len(S_))
        init_[si_[start]] = 1.0
        prob = TabularMarkovDecisionProcess.from_matrices(
            state_list=tuple(S_), action_list=tuple(A_), initial_state_vec=init_, transition_matrix=T_, action_matrix=AM_,
            reward_matrix=R_, absorbing_state_vec=np.array([s in goals for s in S_]), discount_rate=1.0)
    elif pres == "quick_next_state":
        prob = QuickMDP(next_state=next_state, initial_state=start, reward=reward,
                        actions=lambda s: actions_of[s], is_absorbing=is_abs)
    else:
        mk = {"det": lambda x: DeterministicDistribution(x),
              "dict1": lambda x: DictDistribution({x: 1.0}),
              "uniform1": lambda x: UniformDistribution([x])}[pres]
        prob = QuickMDP(next_state_dist=lambda s, a: mk(next_state(s, a)), initial_state_dist=mk(start),
                        reward=reward, actions=lambda s: actions_of[s], is_absorbing=is_abs)

    if pres != "dsp" and rng.random() < 0.3:
        # convert this problem AND an unrelated one up front (as `[from_mdp(m) for m in mdps]` would), plan later
        n2, a2, e2, g2, s2 = gen_graph(rng, 5)
        other = QuickMDP(next_state=lambda s, a: e2[(s, a)][0], initial_state=s2, reward=lambda s, a, ns: -e2[(s, a)][1],
                         actions=lambda s: tuple(a for a in a2 if (s, a) in e2), is_absorbing=lambda s: s in g2)
        conv = case.call("from_mdp", DeterministicShortestPathProblem.from_mdp, prob)
        case.call("from_mdp(other)", DeterministicShortestPathProblem.from_mdp, other)
        if conv is not case.FAIL:
            prob = conv
            case.count("converted_up_front")
    dist = dijkstra_to_goal(nodes, edges, goals)
    level, reach = bfs_levels(nodes, edges, goals, start)
    M = 1 + sum(c for (_, c) in edges.values())
    hk = rng.choice(["zero", "exact", "half", "quarter"])
    scale = {"zero": 0.0, "exact": 1.0, "half": 0.5, "quarter": 0.25}[hk]
    hval = {s: -(scale * (dist[s] if dist[s] < float("inf") else M)) for s in nodes}
    tb = rng.choice(["lifo", "fifo", "random"])
    if tb == "lifo" and hk != "zero" and rng.random() < 0.3:
        # the exact cost-to-go of a state that reaches no goal is infinite (consistent: -inf <= anything). With fifo / random
        # tie-breaking such values trip one of A*'s own internal assertions, so that combination is left out
        hval = {s: (v if dist[s] < float("inf") else float("-inf")) for s, v in hval.items()}
        hk = hk + "(-inf at dead states)"
    rao = rng.random() < 0.5
    seed = rng.choice([None, 0, 1, rng.randrange(2 ** 31)])
    if not (tb == "random" or rao):
        seed = None
    case.family = pres
    case.params = dict(n=len(nodes), goals=len(goals), heuristic=hk, tie_breaking=tb, randomize_action_order=rao,
                       seed=seed)
    opt = dist[start]
    reachable_goal_levels = [level[g] for g in goals if g in level]
    case.nontrivial = (len(nodes) >= 3 and ((opt < float("inf") and min(reachable_goal_levels) >= 2)
                                             or (opt == float("inf") and len(reach) >= 2)))
    case.sig(pres, len(nodes), len(edges), len(goals), hk, tb, rao, opt if opt < float("inf") else -1,
             len(reach), tuple(sorted(c for _, c in edges.values())))
    case.sample = dict(nodes=[repr(x) for x in nodes], start=repr(start), goals=[repr(g) for g in goals],
                       edges=[(repr(s), a, repr(t), c) for (s, a), (t, c) in list(edges.items())[:12]],
                       config=case.params, optimal_cost=repr(opt))
    facts = dict(presentation=pres)

    def validate(name, res, want_cost, want_steps):
        if opt == float("inf"):
            case.count("none_results_validated")
            case.check(res is None, f"{name}:plan-returned-but-no-goal-reachable", repr(getattr(res, "path", res)))
            return
        if not case.check(res is not None, f"{name}:no-plan-but-goal-reachable", f"optimal cost {opt}"):
            return
        case.count("paths_validated")
        path = list(res.path)
        case.check(path[0] == start, f"{name}:path-does-not-start-at-initial-state", repr(path))
        case.check(is_abs(path[-1]), f"{name}:path-does-not-end-at-absorbing-state", repr(path))
        case.check(not any(is_abs(s) for s in path[:-1]), f"{name}:path-passes-through-absorbing-state", repr(path))
        total = 0
        ok = True
        for s, ns in zip(path[:-1], path[1:]):
            d = case.call(f"{name}:policy.action_dist", res.policy.action_dist, s)
            if d is case.FAIL:
                ok = False
                break
            items = [(a, p) for a, p in d.items() if p > 0]
            if not case.check(len(items) == 1 and items[0][0] in actions_of[s] and abs(items[0][1] - 1) < 1e-12,
                              f"{name}:policy-not-deterministic-available-action", f"at {s!r}: {items!r}"):
                ok = False
                break
            a = items[0][0]
            if not case.check(next_state(s, a) == ns, f"{name}:path-step-is-not-a-real-transition",
                              f"{s!r} -{a!r}-> {next_state(s, a)!r}, path says {ns!r}"):
                ok = False
                break
            total += edges[(s, a)][1]
        if not ok:
            return
        if want_cost:
            case.check(res.path_value == total, f"{name}:path_value!=sum-of-costs", f"{res.path_value!r} vs {total!r}")
            case.check(total == opt, f"{name}:path-not-minimum-cost", f"cost {total} optimal {opt}", heuristic=hk,
                       tie_breaking=tb)
        if want_steps:
            case.check(len(path) - 1 == min(reachable_goal_levels), f"{name}:path-not-minimum-steps",
                       f"steps {len(path) - 1} optimal {min(reachable_goal_levels)}")
        vis = set(res.visited)
        case.check(vis <= reach, f"{name}:visited-not-subset-of-reachable", repr(vis - reach))

    from mon import defaults as Dflt
    akw, _om = Dflt.rely_on_defaults(case, rng, "AStarSearch", dict(seed=seed, randomize_action_order=rao, tie_breaking_strategy=tb))
    if not (hk == "zero" and rng.random() < 0.6):
        akw["heuristic_value"] = lambda s: hval[s]        # (the zero heuristic IS the documented default: then it is left out)
    else:
        case.count("calls_relying_on_documented_defaults")
    astar = case.call("AStarSearch()", lambda: AStarSearch(**akw))
    if astar is not case.FAIL:
        Dflt.in_force(case, "AStarSearch", astar, passed=akw)
    warm = None
    if rng.random() < 0.25:
        # the same planner objects first plan on an unrelated problem over OVERLAPPING labels; nothing may leak
        n3, a3, e3, g3, s3 = gen_graph(rng, 6)
        warm = QuickMDP(next_state=lambda s, a: e3[(s, a)][0], initial_state=s3, reward=lambda s, a, ns: -e3[(s, a)][1],
                        actions=lambda s: tuple(a for a in a3 if (s, a) in e3), is_absorbing=lambda s: s in g3)
        case.count("planners_reused")
    if astar is not case.FAIL:
        if warm is not None:
            astar_w = case.call("AStarSearch()", lambda: AStarSearch(heuristic_value=lambda s: 0, seed=seed,
                                                                    randomize_action_order=rao, tie_breaking_strategy=tb))
            if astar_w is not case.FAIL:
                astar_w.heuristic_value = lambda s: 0
                case.call("AStarSearch.plan_on(other problem first)", astar_w.plan_on, warm, facts=facts)
                astar_w.heuristic_value = lambda s: hval[s]
                astar = astar_w
        res = case.call("AStarSearch.plan_on", astar.plan_on, prob, facts=facts)
        case.count("astar_calls")
        res_astar_kept = None
        if res is not case.FAIL:
            validate("astar", res, True, False)
            res_astar_kept = res
    if rng.random() < 0.3 and len(nodes) >= 3:
        # a user's own MDP class keeping the start on the instance; after planning on it, a COPY of it with another start is
        # planned on (copy.copy / deepcopy, then edit): the plan is for the copy
        import copy as _copy
        from msdm.core.mdp import MarkovDecisionProcess

        class Maze(MarkovDecisionProcess):
            discount_rate = 1.0

            def __init__(self_, st): self_.start = st
            def next_state_dist(self_, s, a): return DeterministicDistribution(next_state(s, a))
            def initial_state_dist(self_): return DeterministicDistribution(self_.start)
            def reward(self_, s, a, ns): return reward(s, a, ns)
            def actions(self_, s): return actions_of[s]
            def is_absorbing(self_, s): return is_abs(s)
        mz = Maze(start)
        pl_ = AStarSearch(heuristic_value=lambda s: 0)
        first_ = case.call("AStarSearch.plan_on(user MDP)", pl_.plan_on, mz, facts=facts)
        other_start = rng.choice([x for x in nodes if x != start])
        mz2 = (_copy.copy if rng.random() < 0.5 else _copy.deepcopy)(mz)
        mz2.start = other_start
        for nm_, planner_ in (("astar", AStarSearch(heuristic_value=lambda s: 0)), ("bfs", BreadthFirstSearch())):
            r2_ = case.call(f"{nm_}.plan_on(edited copy of a planned-on MDP)", planner_.plan_on, mz2, facts=facts)
            case.count("plans_on_edited_copies")
            if r2_ is case.FAIL:
                continue
            if dist[other_start] == float("inf"):
                case.check(r2_ is None, f"{nm_}:plan-returned-but-no-goal-reachable", f"edited copy, start {other_start!r}")
            elif case.check(r2_ is not None, f"{nm_}:no-plan-but-goal-reachable", f"edited copy, start {other_start!r}"):
                p2_ = list(r2_.path)
                case.check(p2_[0] == other_start, f"{nm_}:path-does-not-start-at-initial-state",
                           f"edited copy: starts at {p2_[0]!r}, the copy's initial state is {other_start!r}")
                if nm_ == "astar":
                    case.check(r2_.path_value == dist[other_start] or p2_[0] != other_start, "astar:path-not-minimum-cost",
                               f"edited copy: {r2_.path_value!r} vs {dist[other_start]!r}")
    bfs_seed = seed if rao else rng.choice([None, 3])
    bkw, _om = Dflt.rely_on_defaults(case, rng, "BreadthFirstSearch", dict(seed=bfs_seed, randomize_action_order=rao))
    bfs = BreadthFirstSearch(**bkw)
    Dflt.in_force(case, "BreadthFirstSearch", bfs, passed=bkw)
    if warm is not None:
        case.call("BreadthFirstSearch.plan_on(other problem first)", bfs.plan_on, warm, facts=facts)
    res = case.call("BreadthFirstSearch.plan_on", bfs.plan_on, prob, facts=facts)
    case.count("bfs_calls")
    if res is not case.FAIL:
        validate("bfs", res, False, True)
    # two results alive: the A* result (path, value, POLICY) is read again after breadth-first search planned on the same problem
    if astar is not case.FAIL and locals().get("res_astar_kept") is not None and rng.random() < 0.5:
        case.count("results_read_again_after_a_later_plan")
        validate("astar", res_astar_kept, True, False)
