"""C17 — R-MAX stays optimistic about what it has not tried often enough.
Monitor: RMAXEventListener probe validates every experienced step against the spec and records the
experience; shadow counts per (s,a). Oracle: empirical model rebuilt from the FIRST m samples of each
pair; optimism / Bellman / greedy clauses on the returned Q."""
import numpy as np

from mon.case import Inconclusive, Precondition
from mon.gen import mdp as G

PROP = "C17"
CASES = {"quick": 500, "thorough": 40000}
CASE_TIMEOUT = 90
REQUIRED = ["steps_validated", "unknown_pairs_checked", "known_pairs_checked", "policy_states_checked",
            "episodes_observed"]
RULE = ("random proper MDP specs with uniform action sets (flagged absorbing states, gamma in {.5,.9,.95}, "
        "rewards of either sign, inferred state list) x sample thresholds 1-5 x episodes 1-40 x tolerance "
        "{1e-3,1e-6} x seeds. distinct = structural signature incl. threshold/episodes/seed; non-trivial = some "
        "pair became known AND some pair stayed unknown, or >=5 experienced steps.")
ASSUMPTIONS = ["rmax = maximum of the model's reward table computed from the spec (the algorithm asserts rmax == np.max(mdp.reward_matrix))",
               "empirical model is rebuilt from the listener-recorded experience (first m samples per pair)"]


import copy as copy_mod


def run_case(case, rng):
    from msdm.algorithms.rmax import RMAX, RMAXEventListener
    from mon.gen import build as Bd

    n_max = 8 if case.tier == "thorough" and rng.random() < 0.3 else 5
    gamma = rng.choice([0.5, 0.9, 0.95, 0.99] * 3 + [0.0, 0.01])      # the lower end point occasionally
    if rng.random() < 0.03:
        gamma = rng.choice([0.9995, 0.9998])      # a horizon of thousands of steps: the inner value iteration needs ~ln(1/tol)/(1-gamma) sweeps
    sticky = gamma > 0.99 or (gamma == 0.99 and rng.random() < 0.7)
    sp = G.random_spec(rng, "proper", n_max=(3 if sticky else n_max), a_max=(2 if sticky else 3), uniform_actions=True,
                       allow_implicit=False, gamma=gamma, allow_dup_actions=False,
                       reward_sign=("neg" if sticky else None), near_dup_actions=(rng.random() < 0.3),
                       reward_scale=rng.choice([1.0, 1.0, 1000.0]))
    if sticky:
        # cost-only, nearly closed dynamics at gamma=.99: the known-pair values lie far below the optimistic one,
        # so R-MAX's inner value iteration needs thousands of sweeps to meet its tolerance
        for (s_, a_), lst in list(sp.P.items()):
            if s_ in sp.flag:
                continue
            pos = {t: i for i, t in enumerate(sp.states)}
            others = [t for t, q in lst if q > 0 and pos[t] > pos[s_]]      # strictly "up": keeps the MDP proper
            if others:
                sp.P[(s_, a_)] = [(s_, 0.5), (others[0], 0.5)]
                sp.kind[(s_, a_)] = "dict"
                sp.R[(s_, a_, s_)] = -1.0 * (sp.meta.get("reward_scale") or 1.0)
                sp.R[(s_, a_, others[0])] = -1.0 * (sp.meta.get("reward_scale") or 1.0)
    G.restrict_to_closure(sp, rng)
    sp.init = [(s, p) for s, p in sp.init if p > 0]
    rep = rng.choice(["subclass", "quicktabular", "from_matrices_own_order"])
    if rep == "from_matrices_own_order":
        # the MDP handed over as matrices, with the states and actions listed in the caller's own (unsorted) order
        from msdm.core.mdp import TabularMarkovDecisionProcess
        from mon.ref import mdp as Rf
        S0, A0 = list(sp.states), list(sp.action_universe())
        rng.shuffle(S0)
        rng.shuffle(A0)
        a0 = Rf.Arr(sp, states=S0, actions=A0)
        mdp = TabularMarkovDecisionProcess.from_matrices(
            state_list=tuple(S0), action_list=tuple(A0), initial_state_vec=a0.init.copy(), transition_matrix=a0.T.copy(),
            action_matrix=a0.avail.astype(float), reward_matrix=a0.R.copy(),
            absorbing_state_vec=a0.flag.copy(), discount_rate=sp.gamma)
    else:
        mdp = Bd.build(sp, rep)
    S = list(mdp.state_list)
    A = list(mdp.action_list)
    if set(S) != set(sp.states):
        raise Inconclusive("state_list differs from closure (C06's subject)")
    # the maximum reward of the MODEL (over transitions that can happen; 0 for the empty cells of the table), computed
    # from the spec and not read back from msdm's own reward matrix
    from mon.ref import mdp as Rf_
    rmax = float(Rf_.Arr(sp, states=S, actions=A).R.max())
    m = rng.randint(1, 5)
    episodes = rng.randint(1, 40 if case.tier == "thorough" else 20)
    if sticky:
        m, episodes = rng.randint(1, 2), rng.randint(4, 10)
    tolv = rng.choice([1e-3, 1e-6])
    seed = rng.choice([0, 1, 7, rng.randrange(2 ** 31)])
    case.family = "proper-uniform"
    case.params = dict(rep=rep, gamma=gamma, n=len(S), actions=len(A), m=m, episodes=episodes, tolerance=tolv, seed=seed,
                       rmax=rmax)
    exp = []
    state = dict(ep_steps=0, prev=None, episodes=0)
    init_support = {s for s, p in sp.init}

    from msdm.algorithms import rmax as rmax_mod

    class Probe(rmax_mod.EpisodeRewardEventListener):
        """extends R-MAX's DEFAULT listener (event_listener_results stays the library's own) and adds the probes"""
        def __init__(self):
            rmax_mod.EpisodeRewardEventListener.__init__(self)
            state["ep_reward_sums"] = []
            state["ep_acc"] = 0.0

        def end_of_timestep(self, lv):
            rmax_mod.EpisodeRewardEventListener.end_of_timestep(self, lv)
            if state.get("warmup"):
                return
            state["ep_acc"] = state.get("ep_acc", 0.0) + lv["r"]
            s, a, r, ns = lv["s"], lv["a"], lv["r"], lv["ns"]
            case.count("steps_validated")
            state["ep_steps"] += 1
            ok = (s in sp.acts and s not in sp.flag and a in sp.acts[s] and sp.succ(s, a).get(ns, 0) > 0
                  and r == sp.reward(s, a, ns))
            if not ok:
                case.fail("experienced-step-is-not-a-real-transition", f"{(s, a, r, ns)!r}")
            if state["ep_steps"] == 1:
                if s not in init_support:
                    case.fail("episode-does-not-start-in-initial-support", repr(s))
            elif state["prev"] != s:
                case.fail("consecutive-steps-do-not-chain", f"{state['prev']!r} then {s!r}")
            state["prev"] = ns
            exp.append((s, a, r, ns))

        def end_of_episode(self, lv):
            rmax_mod.EpisodeRewardEventListener.end_of_episode(self, lv)
            if state.get("warmup"):
                return
            state["ep_steps"] = 0
            state["episodes"] += 1
            state["ep_reward_sums"].append(state.get("ep_acc", 0.0))
            state["ep_acc"] = 0.0
            case.count("episodes_observed")

    from mon import defaults as Dflt
    rkw, _om = Dflt.rely_on_defaults(case, rng, "RMAX", dict(episodes=episodes, rmax=rmax, num_transition_samples=m,
                                                           bellman_convergence_diff=tolv, seed=seed))
    learner = RMAX(event_listener_class=Probe, **rkw)
    Dflt.in_force(case, "RMAX", learner, passed=rkw)
    if rng.random() < 0.25:
        # the same learner object is first trained on another problem (different size); nothing may leak
        sib = G.random_spec(rng, "proper", n_max=4, a_max=len(A), uniform_actions=True, allow_implicit=False,
                            gamma=gamma, allow_dup_actions=False)
        G.restrict_to_closure(sib, rng)
        sib.init = [(s, p) for s, p in sib.init if p > 0]
        sib_mdp = Bd.build(sib, "subclass")
        learner.rmax = float(np.max(sib_mdp.reward_matrix))
        state["warmup"] = True
        case.call("RMAX.train_on(sibling)", learner.train_on, sib_mdp, facts=dict(reuse=True))
        state.update(ep_steps=0, prev=None, episodes=0, warmup=False)
        exp.clear()
        learner.rmax = rmax
        case.count("learner_reused")
        res = case.call("RMAX.train_on", learner.train_on, mdp, facts=dict(reuse=True))
    else:
        res = case.call("RMAX.train_on", learner.train_on, mdp)
    if res is case.FAIL:
        return
    if rng.random() < 0.2:
        # the learner goes on to another problem over the same labels AFTER this result was returned (and that later result is
        # used): what is judged below - Q-values, policy - is the result returned for THIS problem
        later = copy_mod.deepcopy(sp)
        for k_ in later.R:
            later.R[k_] = -later.R[k_] - 1.0
        later_mdp = Bd.build(later, "subclass")
        keep = (learner.rmax, dict(state), list(exp))
        learner.rmax = float(np.max(later_mdp.reward_matrix))
        state["warmup"] = True
        r_later = case.call("RMAX.train_on(another problem afterwards)", learner.train_on, later_mdp, facts=dict(reuse=True))
        if r_later is not case.FAIL:
            case.call("policy.action_dist(later result)", lambda: [r_later.policy.action_dist(s_) for s_ in later_mdp.state_list])
        learner.rmax = keep[0]
        state.clear()
        state.update(keep[1])
        state["warmup"] = False
        exp[:] = keep[2]
        case.count("results_judged_after_the_learner_was_reused")
    er = case.call("event_listener_results.episode_rewards", lambda: list(res.event_listener_results.episode_rewards))
    if er is not case.FAIL:
        want_er = state.get("ep_reward_sums", [])
        case.count("episode_reward_lists_compared")
        case.check(len(er) == len(want_er) and all(abs(float(x) - float(y)) <= 1e-9 * max(1.0, abs(y)) for x, y in zip(er, want_er)),
                   "episode_rewards!=per-episode-sums-of-experienced-rewards", lambda: f"{er!r} vs {want_er!r}")
    Q = res.q_values
    opt = rmax * 1 / (1 - gamma)
    # shadow model from the first m samples of each pair
    si = {s: i for i, s in enumerate(S)}
    ai = {a: i for i, a in enumerate(A)}
    cnt = np.zeros((len(S), len(A)))
    Rs = np.zeros((len(S), len(A)))
    Ts = np.zeros((len(S), len(A), len(S)))
    for s, a, r, ns in exp:
        i, j = si[s], ai[a]
        if cnt[i, j] < m:
            cnt[i, j] += 1
            Rs[i, j] += r
            Ts[i, j, si[ns]] += 1
    known = cnt >= m
    Qm = np.array([[Q[s][a] for a in A] for s in S])
    case.nontrivial = (known.any() and (~known).any()) or len(exp) >= 5
    case.sig(len(S), len(A), gamma, m, episodes, tolv, seed, int(known.sum()), len(exp))
    case.sample = dict(spec=sp.describe(), config=case.params, steps=len(exp), known_pairs=int(known.sum()),
                       unknown_pairs=int((~known).sum()))
    case.check(state["episodes"] == episodes, "episode-count-differs", f"{state['episodes']} vs {episodes}")
    case.check(set(Q.keys()) == set(S), "q_values-keys!=state_list", "")
    case.check(bool((Qm <= opt + tolv + 1e-9 * max(1, abs(opt))).all()), "Q-exceeds-rmax/(1-gamma)",
               lambda: f"max Q {Qm.max()!r} > {opt!r}")
    V = Qm.max(axis=1)
    for i in range(len(S)):
        for j in range(len(A)):
            if not known[i, j]:
                case.count("unknown_pairs_checked")
                case.check(Qm[i, j] == opt, "under-sampled-pair-is-not-optimistic",
                           f"Q[{S[i]!r},{A[j]!r}]={Qm[i, j]!r} want {opt!r} (count {int(cnt[i, j])} < m={m})")
            else:
                case.count("known_pairs_checked")
                rhs = Rs[i, j] / m + gamma * float((Ts[i, j] / m) @ V)
                case.check(abs(Qm[i, j] - rhs) < tolv + 1e-9 * max(1.0, abs(rhs)), "known-pair-violates-empirical-bellman",
                           f"Q[{S[i]!r},{A[j]!r}]={Qm[i, j]!r} rhs={rhs!r} tol={tolv}")
    for s in S:
        case.count("policy_states_checked")
        d = case.call("policy.action_dist", res.policy.action_dist, s)
        if d is case.FAIL:
            continue
        got = {a: p for a, p in d.items() if p > 0}
        mx = max(Q[s].values())
        best = {a for a in A if Q[s][a] == mx}
        case.check(set(got) == best and all(abs(p - 1 / len(best)) < 1e-12 for p in got.values()),
                   "policy-not-greedy-for-returned-Q", f"state {s!r}: {got!r} vs maximisers {best!r}")
