"""C09 — finite-state-controller values equal the return of executing the controller.
Monitors: boundary recording of stochastic_fsc_policy_evaluation_exact; the same function wrapped as seen
from the bounded-policy-iteration module to record the sequence of value tables inside one train_on;
boundary of StochasticFiniteStateController.initial_agentstate/action_dist/next_agentstate driven along
ALL action/observation histories up to a bounded length.
Oracle: reference cross-product solve with absorbing states terminal; hidden-node forward algorithm."""
import itertools
import numpy as np

from mon.case import Inconclusive
from mon.gen import pomdp as GP
from mon.gen import mdp as G
from mon.probe.wrap import wrap
from mon.ref import fsc as F

PROP = "C09"
CASES = {"quick": 320, "thorough": 20000}
CASE_TIMEOUT = 240
SHARD_TIMEOUT = {"quick": 900, "thorough": 7200}
REQUIRED = ["evaluator_calls", "evaluator_entries_compared", "histories_checked", "bpi_runs", "ga_runs",
            "bpi_value_tables_recorded", "learner_rows_checked"]
RULE = ("random POMDPs (with and without live absorbing states) x random stochastic controllers (1-3 nodes, "
        "row-stochastic strategies with zeros, non-degenerate initial node distributions) x ALL action/observation "
        "histories up to length 3; learners: seeds x 1-3 initial nodes x 1-8 (BPI) / 1-15 (GA) iterations. "
        "distinct = structural signature; non-trivial = >=2 nodes or >=2 actions with a stochastic strategy.")
ASSUMPTIONS = ["reference value = linear solve on the (node,state) cross product with absorbing states terminal",
               "node and state chains are conditionally independent given the action/observation history, so the "
               "implementation's history probabilities are compared through its agent state at every history"]


def _simplex(rng, n, positive=False):
    if n == 1:
        return [1.0]
    k = n if positive else rng.randint(1, n)
    idx = rng.sample(range(n), k)
    out = [0.0] * n
    for i, p in zip(idx, G.rand_probs(rng, k)):
        out[i] = p
    if k >= 2 and rng.random() < 0.15:
        # a lapse-sized entry (an action / node taken once in 1e5 ... 1e9 times): exact floats d and (p - d)
        d = rng.choice([1e-5, 1e-7, 1e-9])
        i_small, i_big = idx[0], idx[1]
        out[i_big] = out[i_big] + (out[i_small] - d)
        out[i_small] = d
    return out


def run_case(case, rng):
    import torch
    from msdm.algorithms import fscgradientascent as ga_mod
    from msdm.algorithms import fscboundedpolicyiteration as bpi_mod
    from msdm.core.pomdp.finitestatecontroller import StochasticFiniteStateController
    from mon.gen import build as Bd
    from mon.ref.pomdp import PModel

    sp = GP.random_pomdp(rng)
    if rng.random() < 0.12:
        # a horizon of thousands of steps: values are sums over ~1/(1-gamma) steps, whatever evaluates them has to get that far
        sp.gamma = rng.choice([0.999, 0.9995])
        sp.meta["long_horizon"] = True
    pomdp = Bd.build_pomdp(sp, explicit=rng.random() < 0.5)
    S, A, OL = list(pomdp.state_list), list(pomdp.action_list), list(pomdp.observation_list)
    if set(S) != set(sp.states):
        raise Inconclusive("state_list differs from closure")
    M = PModel(sp, S, A, OL)
    gamma = sp.gamma
    live_abs = bool(any(M.absorbing[i] and (np.abs(M.arr.ER[i]).max() > 0 or not np.allclose(M.arr.T[i, :, i][M.arr.avail[i]], 1.0))
                        for i in range(len(S))))
    mode = rng.choice(["controller", "controller", "bpi", "ga"])
    if sp.meta.get("special") in ("det", "full") and rng.random() < 0.5:
        mode = "bpi"      # sparse dynamics with (near-)deterministic observations: where bounded policy iteration adds escape nodes
    case.family = mode
    case.params = dict(n=len(S), actions=len(A), obs=len(OL), gamma=gamma, live_absorbing=live_abs,
                       special=sp.meta.get("special"))
    scale = max(1.0, np.abs(M.arr.ER).max() / (1 - gamma))
    tol = 1e-8 * scale
    facts = dict(live_absorbing=live_abs, gamma=gamma)
    for k in ("evaluator_calls", "evaluator_entries_compared", "histories_checked", "bpi_runs", "ga_runs",
              "bpi_value_tables_recorded", "learner_rows_checked"):
        case.count(k, 0)

    def compare_eval(label, psi, eta, got, extra=None):
        """got: (nodes, states) table from msdm; classify against both references"""
        ref = F.eval_fsc(M, psi, eta, absorb=True)
        ref_raw = F.eval_fsc(M, psi, eta, absorb=False)
        case.count("evaluator_entries_compared", ref.size)
        bad = np.argwhere(np.abs(got - ref) > tol)
        matches_raw = bool(np.abs(got - ref_raw).max() <= tol)
        case.check(len(bad) == 0, f"{label}!=expected-return-with-episodes-ending-at-absorbing-states",
                   lambda: f"at (node,state)={bad[0].tolist()}: {got[tuple(bad[0])]!r} vs {ref[tuple(bad[0])]!r} "
                           f"(raw-dynamics reference {ref_raw[tuple(bad[0])]!r})",
                   equals_reference_without_absorption=matches_raw, **dict(facts, **(extra or {})))
        return ref

    if mode == "controller":
        nn = rng.randint(1, 3)
        psi = np.array([_simplex(rng, len(A)) for _ in range(nn)])
        eta = np.array([[[_simplex(rng, nn) for _ in OL] for _ in A] for _ in range(nn)])
        init = np.array(_simplex(rng, nn, positive=True))
        case.nontrivial = nn >= 2 or (len(A) >= 2 and (psi > 0).sum(1).max() >= 2)
        case.sig("controller", len(S), len(A), len(OL), nn, gamma, live_abs, int((psi > 0).sum()), int((eta > 0).sum()))
        case.sample = dict(spec=sp.describe(), action_strategy=psi.tolist(), initial=init.tolist())
        # ---- evaluator --------------------------------------------------------------------------------
        res = case.call("stochastic_fsc_policy_evaluation_exact", ga_mod.stochastic_fsc_policy_evaluation_exact,
                        pomdp, torch.tensor(psi), torch.tensor(eta), fsc_initial_state=torch.tensor(init), facts=facts)
        case.count("evaluator_calls")
        if res is not case.FAIL:
            got = res.state_controller_value.numpy()
            ref = compare_eval("evaluator", psi, eta, got)
            sv = res.state_value.numpy()
            case.check(np.allclose(sv, init @ got, atol=tol), "evaluator:state_value!=initial-node-mixture", "", **facts)
            ev = float(res.expected_value)
            case.check(abs(ev - float(init @ got @ np.array(pomdp.initial_state_vec))) <= tol,
                       "evaluator:expected_value!=state_value@initial-distribution", "", **facts)
        # ---- the same controller with its node transitions written in the 3-D form p(n' | n, o) -------------------------
        if rng.random() < 0.5:
            eta3 = np.array([[_simplex(rng, nn) for _ in OL] for _ in range(nn)])
            eta4 = np.repeat(eta3[:, None, :, :], len(A), axis=1)
            res3 = case.call("stochastic_fsc_policy_evaluation_exact(3-D node transitions)",
                             ga_mod.stochastic_fsc_policy_evaluation_exact, pomdp, torch.tensor(psi), torch.tensor(eta3),
                             fsc_initial_state=torch.tensor(init), facts=facts)
            case.count("evaluator_calls")
            case.count("evaluator_calls_3d_form")
            if res3 is not case.FAIL:
                compare_eval("evaluator(3-D node transitions)", psi, eta4, res3.state_controller_value.numpy(),
                             extra=dict(node_transition_form="p(n'|n,o)"))
        # ---- executing the controller: all histories ------------------------------------------------------
        ctrl = case.call("StochasticFiniteStateController", StochasticFiniteStateController, pomdp, psi, eta, init)
        if ctrl is case.FAIL:
            return
        if nn >= 2:
            # a subclass that overrides the public initial_agentstate (starts from another node distribution): roll-outs
            # started without an explicit agent state begin there
            other0 = np.array(_simplex(rng, nn, positive=True))[::-1].copy()

            class OtherStart(StochasticFiniteStateController):
                def initial_agentstate(self_):
                    return other0.copy()
            oc = case.call("StochasticFiniteStateController-subclass", OtherStart, pomdp, psi, eta, init)
            if oc is not case.FAIL:
                import random as _r
                tr0 = case.call("run_on(subclass)", oc.run_on, pomdp, max_steps=2, rng=_r.Random(3), facts=facts)
                case.count("controller_subclass_rollouts")
                if tr0 is not case.FAIL:
                    case.check(np.array_equal(np.asarray(tr0[0].agentstate), other0), "controller:run_on-ignores-the-overridden-initial_agentstate",
                               lambda: f"override {other0.tolist()} roll-out started from {np.asarray(tr0[0].agentstate).tolist()}", **facts)
        Ai = {a: i for i, a in enumerate(A)}
        Oi = {o: i for i, o in enumerate(OL)}
        L = 3 if len(A) * len(OL) <= 6 else 2
        ag0 = ctrl.initial_agentstate()
        frontier = [((), ag0)]
        for depth in range(L + 1):
            nxt = []
            for hist, ag in frontier:
                alpha, pacts = F.node_posterior(init, psi, eta, hist, Ai, Oi)
                if alpha is None:
                    continue
                case.count("histories_checked")
                ad = case.call("action_dist", ctrl.action_dist, ag, facts=facts)
                if ad is case.FAIL:
                    continue
                got = np.array([dict(ad.items()).get(a, 0.0) for a in A], dtype=float)
                want = alpha @ psi
                case.check(np.allclose(got, want, atol=1e-12), "controller:action-probabilities-after-history-differ-from-definition",
                           lambda: f"history {hist!r}: P(a|h) implementation {got.tolist()!r} definition {want.tolist()!r}",
                           history_length=len(hist), nodes=nn, **facts)
                if depth == L:
                    continue
                for a in A:
                    if want[Ai[a]] <= 0:
                        continue
                    for o in OL:
                        nag = case.call("next_agentstate", ctrl.next_agentstate, ag, a, o, facts=facts)
                        if nag is not case.FAIL:
                            nxt.append((hist + ((a, o),), nag))
            frontier = nxt
        # ---- run_on starts exactly at the given (state, node distribution) ---------------------------------------
        import random as _random
        for s0 in S:
            e = np.zeros(nn)
            e[rng.randrange(nn)] = 1.0
            traj = case.call("run_on", ctrl.run_on, pomdp, initial_state=s0, initial_agentstate=e, max_steps=2,
                             rng=_random.Random(rng.randrange(2 ** 31)), facts=facts)
            case.count("run_on_starts_checked")
            if traj is not case.FAIL:
                case.check(traj[0].state == s0 and np.array_equal(np.asarray(traj[0].agentstate), e),
                           "controller:run_on-does-not-start-at-given-state-or-node",
                           lambda: f"given ({s0!r}, {e.tolist()}) got ({traj[0].state!r}, {np.asarray(traj[0].agentstate).tolist()})", **facts)
                # the whole (short) run is a chain of real steps that never continues out of an absorbing state
                steps = list(traj)
                ok = steps[-1].action is None
                for st_, nx_ in zip(steps[:-1], steps[1:]):
                    ok = ok and st_.state not in sp.flag and st_.action in A and st_.nextstate == nx_.state \
                        and sp.succ(st_.state, st_.action).get(st_.nextstate, 0) > 0
                case.check(ok and (len(steps) == 1 if s0 in sp.flag else len(steps) >= 2),
                           "controller:run_on-steps-out-of-an-absorbing-state-or-breaks-the-chain",
                           lambda: f"start {s0!r} (absorbing={s0 in sp.flag}): {[(x.state, x.action) for x in steps]!r}", **facts)
    else:
        nn = rng.randint(1, 3)
        seed = rng.choice([0, 1, rng.randrange(2 ** 31)])
        case.nontrivial = True
        if mode == "bpi":
            iters = rng.randint(1, 8)
            tables = []

            def after(args, kwargs, out, exc):
                if exc is None:
                    tables.append(np.array(out.state_controller_value.numpy(), copy=True))
            from mon import defaults as Dflt
            Dflt.in_force(case, "FSCBoundedPolicyIteration", bpi_mod.FSCBoundedPolicyIteration(controller_state_count=nn), passed={})
            learner = bpi_mod.FSCBoundedPolicyIteration(controller_state_count=nn, iterations=iters, seed=seed)
            # probe on the LP solver the improvement step calls: the last solution it returned (for the facts of an exception)
            import scipy.optimize as _so
            lp_last = {}

            def after_lp(args, kwargs, out, exc):
                if exc is None:
                    lp_last.update(last_lp_status=int(getattr(out, "status", -1)), last_lp_message=str(getattr(out, "message", ""))[:120])
                if exc is None and getattr(out, "x", None) is not None:
                    x_ = np.asarray(out.x, dtype=float)
                    pos_ = x_[:-1][x_[:-1] > 0]
                    lp_last.update(last_lp_epsilon=float(x_[-1]), last_lp_smallest_positive_weight=float(pos_.min()) if pos_.size else 0.0)
                case.count("bpi_lp_solutions_observed")

            def bpi_facts():
                f_ = dict(facts)
                f_.update(lp_last)
                e_, w_ = lp_last.get("last_lp_epsilon", 1.0), lp_last.get("last_lp_smallest_positive_weight", 1.0)
                # HiGHS' feasibility / optimality tolerance is 1e-7; numpy.isclose's absolute tolerance (the library's zero test) 1e-8.
                # The normalisation assertion is np.allclose(row sums, 1) with rtol 1e-5: an action weight w whose per-observation
                # sums agree only to the solver's 1e-8..1e-7 fails it as soon as 1e-8 / w > 1e-5, i.e. for w below 1e-3.
                f_["last_lp_solution_at_solver_noise_level"] = bool(1e-8 < abs(e_) < 1e-6 or 1e-8 < w_ < 1e-3)
                return f_
            if rng.random() < 0.25:
                # the same learner object is first trained on another POMDP (other sizes); nothing may leak
                other = Bd.build_pomdp(GP.random_pomdp(rng), explicit=False)
                with wrap(_so, "linprog", after=after_lp):
                    case.call("FSCBoundedPolicyIteration.train_on(other problem first)", learner.train_on, other, facts=bpi_facts)
                lp_last.clear()
                case.count("learners_reused")
            with wrap(bpi_mod, "stochastic_fsc_policy_evaluation_exact", after=after) as w, wrap(_so, "linprog", after=after_lp):
                res = case.call("FSCBoundedPolicyIteration.train_on", learner.train_on, pomdp, facts=bpi_facts)
            case.count("bpi_runs")
            case.count("bpi_value_tables_recorded", len(tables))
            case.sig("bpi", len(S), len(A), len(OL), nn, gamma, live_abs, iters, seed % 1000)
            # monotone value tables (new nodes exempt at birth)
            for t0, t1 in zip(tables[:-1], tables[1:]):
                r = min(t0.shape[0], t1.shape[0])
                bad = np.argwhere(t1[:r] < t0[:r] - 1e-9 * scale)
                if len(bad):
                    case.fail("bpi:node-value-decreased-between-iterations",
                              f"(node,state)={bad[0].tolist()}: {t0[tuple(bad[0])]!r} -> {t1[tuple(bad[0])]!r}", **facts)
                    break
        else:
            iters = rng.randint(1, 25)
            lr = rng.choice([0.1, 0.1, 0.5, 1.0, 2.0])       # large steps make the trajectory non-monotone
            from mon import defaults as Dflt
            Dflt.in_force(case, "FSCGradientAscent", ga_mod.FSCGradientAscent(controller_state_count=nn), passed={})
            learner = ga_mod.FSCGradientAscent(controller_state_count=nn, iterations=iters, seed=seed, learning_rate=lr)
            if rng.random() < 0.25:
                other = Bd.build_pomdp(GP.random_pomdp(rng), explicit=False)
                case.call("FSCGradientAscent.train_on(other problem first)", learner.train_on, other, facts=facts)
                case.count("learners_reused")
            res = case.call("FSCGradientAscent.train_on", learner.train_on, pomdp, facts=facts)
            case.count("ga_runs")
            case.sig("ga", len(S), len(A), len(OL), nn, gamma, live_abs, iters, seed % 1000)
        case.sample = dict(spec=sp.describe(), learner=mode, nodes=nn, iterations=iters, seed=seed)
        if res is case.FAIL:
            return
        pol = res.policy

        def arr(x):
            return x.detach().numpy() if hasattr(x, "detach") else np.array(x)
        psi, eta, init = arr(pol.action_strategy), arr(pol.observation_strategy), arr(pol.initial_state_dist)
        for name, t in (("action", psi), ("node-transition", eta), ("initial", init[None, :])):
            case.count("learner_rows_checked", int(np.prod(t.shape[:-1])))
            # one floating-point reading for both halves of "is a probability distribution": rows sum to 1 within 1e-9 and no
            # entry is below -1e-9 (bounded policy iteration's rows come out of an LP solver: -2e-11 was observed, thorough seed 1)
            ok = bool((t >= -1e-9).all() and np.allclose(t.sum(-1), 1.0, atol=1e-9) and np.isfinite(t).all())
            case.check(ok, f"{mode}:{name}-rows-are-not-probability-distributions", lambda: f"{t.tolist()!r}", **facts)
        val = res.value.expected_value if mode == "ga" else res.value
        val = float(val.detach().numpy()) if hasattr(val, "detach") else float(val)
        ref = F.eval_fsc(M, psi, eta, absorb=True)
        ref_raw = F.eval_fsc(M, psi, eta, absorb=False)
        if mode == "bpi":
            # the whole (node, state) value table that comes with the result is the evaluation of the RETURNED controller
            tab = case.call("bpi.state_controller_value", lambda: np.array(res.state_controller_value, dtype=float), facts=facts)
            if tab is not case.FAIL and tab.shape == ref.shape:
                case.count("bpi_final_tables_compared")
                badt = np.argwhere(np.abs(tab - ref) > tol)
                case.check(len(badt) == 0, "bpi:reported-value!=exact-evaluation-of-returned-controller",
                           lambda: f"state_controller_value at (node,state)={badt[0].tolist()}: {tab[tuple(badt[0])]!r} vs {ref[tuple(badt[0])]!r} "
                                   f"(raw-dynamics reference {ref_raw[tuple(badt[0])]!r})",
                           equals_reference_without_absorption=bool(np.abs(tab - ref_raw).max() <= tol), **facts)
        s0 = np.array(pomdp.initial_state_vec)
        want = float(init @ ref @ s0)
        want_raw = float(init @ ref_raw @ s0)
        case.check(abs(val - want) <= tol, f"{mode}:reported-value!=exact-evaluation-of-returned-controller",
                   f"{val!r} vs {want!r} (raw-dynamics reference {want_raw!r})",
                   equals_reference_without_absorption=bool(abs(val - want_raw) <= tol), **facts)
