"""C03 — LAO* with an admissible heuristic returns an optimal closed policy.
Monitor: msdm's own LAOStarEventListener hook (upper-bound invariant asserted online at every
main-loop iteration over every node of the explicit graph) + boundary recording of the result.
Oracle: reference V* (mon.ref.mdp) and exact evaluation of the returned policy."""
import numpy as np

from mon.case import Inconclusive
from mon.gen import mdp as G
from mon.gen.heur import make_heuristic
from mon.ref import mdp as Rf

PROP = "C03"
CASES = {"quick": 800, "thorough": 60000}
CASE_TIMEOUT = 60
REQUIRED = ["laostar_calls", "listener_iterations", "node_values_checked_online", "policy_states_walked"]
RULE = ("random MDP specs (any[gamma<1], proper[gamma in {.5,.9,.99,1}]; absorbing initial states, live "
        "absorbing states, state-dependent action sets) x admissible heuristics (exact, exact+inconsistent "
        "slack, constants) x seeds x randomize_action_order/randomize_nextstate_order. distinct = structural "
        "signature incl. heuristic kind and flags; non-trivial = LAO* ran at least one main-loop iteration "
        "and the MDP branches.")
ASSUMPTIONS = ["reference V* certified to 1e-9 (mon/ref/mdp.py)",
               "gamma=1 cases use flagged absorbing states only (LAO* knows absorption through is_absorbing)",
               "generated MDPs are closed and proper over the whole state list (LAO* walks through absorbing states into their live successors)"]


def run_case(case, rng):
    from msdm.algorithms.laostar import LAOStar, LAOStarEventListener
    from mon.gen import build as Bd

    fam = rng.choice(["any", "proper", "proper"])
    n_max = 12 if case.tier == "thorough" and rng.random() < 0.3 else 7
    if fam == "any":
        sp = G.random_spec(rng, "any", n_max=n_max, reward_scale=rng.choice([1.0, 1.0, 1.0, 30.0, 1000.0, 1e7, 1e9]))
    else:
        sp = G.random_spec(rng, "proper", n_max=n_max, allow_implicit=False,
                           reward_scale=rng.choice([1.0, 1.0, 1.0, 30.0, 1000.0, 1e7, 1e9]))
    rep = rng.choice(["subclass", "quicktabular", "subclass", "quicktabular", "dsp_override", "quick_override"])
    if rng.random() < 0.15:
        # None is a legal hashable action label for a planner (it only collides with the roll-out API's "no action")
        universe = sp.action_universe()
        old_a = rng.choice(universe)
        ren = lambda a_: None if a_ == old_a else a_
        sp.acts = {s_: tuple(ren(a_) for a_ in acts_) for s_, acts_ in sp.acts.items()}
        sp.P = {(s_, ren(a_)): v for (s_, a_), v in sp.P.items()}
        sp.kind = {(s_, ren(a_)): v for (s_, a_), v in sp.kind.items()}
        sp.R = {(s_, ren(a_), t_): v for (s_, a_, t_), v in sp.R.items()}
        sp.meta["none_action"] = True
    G.restrict_to_closure(sp, rng)
    sp.init = [(s, p) for s, p in sp.init if p > 0]
    mdp = Bd.build(sp, rep)
    gamma = sp.gamma
    arr = Rf.Arr(sp)
    pinned = arr.flag.copy() if gamma == 1.0 else arr.absorbing.copy()
    if gamma == 1.0 and arr.implicit.any() and not (arr.implicit <= arr.flag).all():
        raise Inconclusive("implicit absorbing state at gamma=1")
    sol = Rf.solve(arr, gamma, pinned)
    if not sol.ok:
        raise Inconclusive("reference not certified")
    scale = sol.scale
    hk, h = make_heuristic(rng, arr, sol, gamma)
    seed = rng.choice([0, 1, 7, rng.randrange(2 ** 31)])
    rao, rno = rng.random() < 0.5, rng.random() < 0.5
    case.family = fam
    case.params = dict(rep=rep, gamma=gamma, n=len(sp.states), heuristic=hk, seed=seed,
                       randomize_action_order=rao, randomize_nextstate_order=rno)
    Vstar = {s: float(sol.V[i]) for i, s in enumerate(arr.S)}
    tol = 1e-7 * scale

    warm = dict(on=False)

    class Probe(LAOStarEventListener):
        iters = 0

        def main_lao_star_loop(self, localvars):
            if warm["on"]:
                return
            Probe.iters += 1
            case.count("listener_iterations")
            g = localvars["explicit_graph"]
            for s, node in g.states_to_nodes.items():
                case.count("node_values_checked_online")
                if not (node.value >= Vstar[s] - tol):
                    case.fail("online:explicit-graph-value-below-optimal",
                              f"iteration {Probe.iters}: value[{s!r}]={node.value!r} < V*={Vstar[s]!r}",
                              heuristic=hk)

    hvals = set(h.values())
    hfun = (lambda s: h[s]) if (len(hvals) > 1 or rng.random() < 0.5) else next(iter(hvals))   # a constant may be passed as a number
    htype = rng.choice(["float", "float", "np.float64", "0-d array", "int-if-integral"])
    if callable(hfun) and htype != "float":
        conv = {"np.float64": np.float64, "0-d array": np.asarray,
                "int-if-integral": (lambda v: int(v) if float(v).is_integer() else v)}[htype]
        hobj = {s_: conv(v_) for s_, v_ in h.items()}          # ONE stored object per state, handed out every time
        hsnap = {s_: float(v_) for s_, v_ in hobj.items()}
        hfun = lambda s: hobj[s]
        case.params["heuristic_value_type"] = htype
    # boundary budgets: an outer-loop cap the search cannot finish within (an honest run then says converged=False).
    # (Too few inner dynamic-programming sweeps make LAO* stop on its own `assert converged`: it refuses rather than
    # returns something, so that parameter is left at its default.)
    cap_kw = {}
    if rng.random() < 0.12:
        cap_kw["max_lao_star_iterations"] = rng.choice([1, 2, 5])
    case.params.update(cap_kw)
    from mon import defaults as Dflt
    lkw, _om = Dflt.rely_on_defaults(case, rng, "LAOStar", dict(randomize_action_order=rao, randomize_nextstate_order=rno,
                                                                event_listener_class=Probe, seed=seed, **cap_kw))
    planner = LAOStar(heuristic=hfun, **lkw)
    Dflt.in_force(case, "LAOStar", planner, passed=lkw)        # the budgets left at their defaults, too
    # facts for the classifier of exceptions: how large the optimal values are, and whether some non-absorbing state has two
    # available actions whose optimal action values agree to 1e-12 relative (a tie that floating point cannot hold at that size)
    Qs_ = np.where(arr.avail, sol.Q, -np.inf)
    live_ = ~pinned
    top2_ = np.sort(Qs_[live_], axis=1)[:, -2:] if live_.any() and Qs_.shape[1] >= 2 else np.zeros((0, 2))
    tie_ = bool(len(top2_) and np.any(np.isfinite(top2_[:, 0]) & (np.abs(top2_[:, 1] - top2_[:, 0]) <= 1e-12 * np.maximum(1.0, np.abs(top2_[:, 1])))))
    gaps_ = [abs(t_[1] - t_[0]) / max(1.0, abs(t_[1])) for t_ in top2_ if np.isfinite(t_[0])]
    plan_facts = dict(gamma=gamma, heuristic=hk, value_magnitude=float(np.abs(sol.V).max()), exact_tie_between_optimal_actions=tie_,
                      smallest_relative_gap_between_best_two_actions=float(min(gaps_)) if gaps_ else None)
    if rng.random() < 0.25:
        # the same planner object first plans on a sibling problem over the same labels with one more absorbing
        # state; nothing of that run may leak into the judged one
        import copy
        sib = copy.deepcopy(sp)
        extra = [s for s in sib.states if s not in sib.flag]
        if extra:
            sib.flag = set(sib.flag) | {rng.choice(extra)}
            warm["on"] = True
            case.call("LAOStar.plan_on(sibling)", planner.plan_on, Bd.build(sib, rep), facts=plan_facts)
            warm["on"] = False
            case.count("planner_reused")
    res = case.call("LAOStar.plan_on", planner.plan_on, mdp, facts=plan_facts)
    case.count("laostar_calls")
    if "heuristic_value_type" in case.params:
        now_h = {s_: float(v_) for s_, v_ in hobj.items()}
        case.check(now_h == hsnap, "planner-changed-the-heuristic's-own-value-objects",
                   lambda: f"{[(s_, hsnap[s_], now_h[s_]) for s_ in hsnap if hsnap[s_] != now_h[s_]][:3]!r}", heuristic_value_type=htype)
    if res is case.FAIL:
        return
    if rng.random() < 0.25:
        import copy
        sib2 = copy.deepcopy(sp)
        extra2 = [s for s in sib2.states if s not in sib2.flag]
        if extra2:
            sib2.flag = set(sib2.flag) | {rng.choice(extra2)}
            it_backup = Probe.iters
            warm["on"] = True
            case.call("LAOStar.plan_on(sibling, afterwards)", planner.plan_on, Bd.build(sib2, rep), facts=plan_facts)
            warm["on"] = False
            Probe.iters = it_backup
            case.count("result_read_after_reuse")
    branches = bool(((arr.T > 0).sum(-1) >= 2).any() or (arr.avail.sum(-1) >= 2).any())
    case.nontrivial = Probe.iters >= 1 and branches
    case.sig(fam, len(arr.S), len(arr.A), gamma, tuple(sp.meta.get("abs_kinds", [])), hk, rao, rno,
             int((arr.T > 0).sum()), Probe.iters, round(float(sol.V.sum()), 6))
    case.sample = dict(spec=sp.describe(), config=case.params, main_loop_iterations=Probe.iters,
                       explicit_graph_nodes=len(res.state_value_map),
                       initial_value=float(res.initial_value))

    if "max_lao_star_iterations" in cap_kw and not bool(res.converged):
        # out of budget and said so: only the upper-bound clause applies (checked online and on the final map)
        case.count("capped_runs_reporting_not_converged")
        for s, v in res.state_value_map.items():
            case.check(v >= Vstar[s] - tol, "state_value_map-below-optimal", f"value[{s!r}]={v!r} V*={Vstar[s]!r}")
        return
    if cap_kw:
        case.count("capped_runs_reporting_converged")
    case.check(bool(res.converged), "converged=False", "")
    iv_ref = sum(p * Vstar[s] for s, p in sp.init)
    case.check(abs(float(res.initial_value) - iv_ref) <= tol, "initial_value!=optimal",
               f"{float(res.initial_value)!r} vs {iv_ref!r}", heuristic=hk)
    for s, v in res.state_value_map.items():
        case.check(v >= Vstar[s] - tol, "state_value_map-below-optimal", f"value[{s!r}]={v!r} V*={Vstar[s]!r}")
    # policy closed under its own reachability; only available actions
    pim = np.zeros_like(arr.avail, dtype=float)
    seen, frontier = set(), [s for s, p in sp.init]
    ok_walk = True
    while frontier:
        s = frontier.pop()
        if s in seen:
            continue
        seen.add(s)
        i = arr.si[s]
        if pinned[i]:
            continue
        case.count("policy_states_walked")
        d = case.call("policy.action_dist", res.policy.action_dist, s)
        if d is case.FAIL:
            ok_walk = False
            continue
        items = [(a, p) for a, p in d.items() if p > 0]
        tot = sum(p for _, p in items)
        good = bool(items) and abs(tot - 1) <= 1e-9 and all(a in sp.acts[s] for a, _ in items)
        case.check(good, "policy-picks-unavailable-action-or-not-a-distribution",
                   f"state {s!r}: {items!r} available {sp.acts[s]!r}")
        if not good:
            ok_walk = False
            continue
        for a, p in items:
            pim[i, arr.ai[a]] = p
            for t, q in sp.P[(s, a)]:
                if q > 0:
                    frontier.append(t)
    if ok_walk:
        # the solution graph is the part of the explicit graph the returned policy reaches: same states as the walk, node
        # values as in the value map, node actions as in the policy
        def sg():
            nodes = res.solution_graph.states_to_nodes
            bad = []
            if not seen <= set(nodes):      # (the graph may also hold successors listed with probability 0)
                bad.append(f"states {sorted(map(repr, seen - set(nodes)))} the policy reaches are missing from the solution graph")
            for s_, n_ in nodes.items():
                if s_ in res.state_value_map and abs(n_.value - res.state_value_map[s_]) > tol:
                    bad.append(f"value[{s_!r}] {n_.value!r} vs map {res.state_value_map[s_]!r}")
                if s_ in seen and not pinned[arr.si[s_]] and pim[arr.si[s_], arr.ai[n_.optimal_action]] <= 0:
                    bad.append(f"node action {n_.optimal_action!r} at {s_!r} not in the policy's support")
            return bad
        bad_sg = case.call("solution_graph", sg)
        case.count("solution_graphs_compared")
        if bad_sg is not case.FAIL:
            case.check(not bad_sg, "solution_graph-inconsistent-with-policy-or-value-map", lambda: "; ".join(bad_sg[:3]))
        # fill unreached rows with anything available
        for i in range(len(arr.S)):
            if pim[i].sum() == 0:
                pim[i, np.argmax(arr.avail[i])] = 1.0
        ev = Rf.evaluate_policy_matrix(arr, pim, pinned, gamma)
        ret = sum(p * ev["V"][arr.si[s]] for s, p in sp.init)
        case.check(abs(ret - iv_ref) <= tol, "returned-policy-not-optimal",
                   f"exact return {ret!r} vs optimal {iv_ref!r}", heuristic=hk)
