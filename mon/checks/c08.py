"""C08 — PBVI never over-estimates and QMDP never under-estimates the optimal POMDP value.
Monitor: pointbasedvalueiteration.point_based_value_iteration is wrapped (source-free) to copy the belief
set on which the returned alpha vectors were actually computed and the number k of exact back-ups they
embody; boundary recording of policy.value / action_value / action_dist.
Oracle: independent depth-limited expectimax bracket [L,U] of V*(b) with sound leaf bounds."""
import numpy as np

from mon.case import Inconclusive, Precondition
from mon.gen import pomdp as GP
from mon.probe.wrap import wrap

PROP = "C08"
CASES = {"quick": 480, "thorough": 6000}
CASE_TIMEOUT = 240
SHARD_TIMEOUT = {"quick": 900, "thorough": 7200}
REQUIRED = ["pbvi_calls", "inner_pbvi_calls_captured", "beliefs_bracketed", "qmdp_calls", "action_dists_checked",
            "qmdp_action_values_checked"]
RULE = ("random discounted POMDPs (2-4 states, 1-3 actions, 1-3 observations, live/zero absorbing states, rewards of "
        "either sign; fully observable, blind and deterministic specials) x thresholds {.1,.01} x horizon "
        "{None,3,10} x small belief-expansion budgets x QMDP solvers {default PI, VI(1e-10)}; beliefs = all "
        "points of the captured belief set + beliefs reachable in <=3 steps + random simplex points. distinct = "
        "structural signature; non-trivial = >=2 actions and a non-deterministic observation or transition.")
ASSUMPTIONS = ["V*(b) is bracketed by an exact expectimax of depth 3 (4 in thorough for small models) with leaf "
               "bounds: lower = best blind-action value, upper = fully observable MDP value",
               "PBVI slack = gamma^k * max(0,-Rmin)/(1-gamma) with k read from the wrapped inner call",
               "PBVI's own horizon formula needs a non-constant reward matrix (precondition, not judged)"]


def run_case(case, rng):
    from msdm.core.distributions import DictDistribution
    from msdm.algorithms import pointbasedvalueiteration as pbvi_mod
    from msdm.algorithms.pointbasedvalueiteration import PointBasedValueIteration
    from msdm.algorithms.qmdp import QMDP
    from msdm.algorithms import ValueIteration
    from msdm.core.pomdp.tabularpomdp import Belief
    from mon.gen import build as Bd
    from mon.ref.pomdp import PModel

    sp = GP.random_pomdp(rng, gamma=rng.choice([0.5, 0.8, 0.9, 0.95]))
    if rng.random() < 0.15:
        # large reward magnitudes (values of 1e4..1e5 against a threshold of 0.1 / 0.01)
        for k_ in sp.R:
            sp.R[k_] = sp.R[k_] * 1000.0
        sp.meta["reward_scale"] = 1000.0
    pomdp = Bd.build_pomdp(sp, explicit=rng.random() < 0.5)
    S, A, OL = list(pomdp.state_list), list(pomdp.action_list), list(pomdp.observation_list)
    if set(S) != set(sp.states):
        raise Inconclusive("state_list differs from closure")
    M = PModel(sp, S, A, OL)
    if not M.mdp_ok:
        raise Inconclusive("reference MDP solve not certified")
    gamma = sp.gamma
    eps = rng.choice([0.1, 0.01])
    if sp.gamma <= 0.5 and rng.random() < 0.3:
        eps = rng.choice([1e-4, 1e-6])       # thresholds far below any relative float tolerance on the values
    horizon = rng.choice([None, None, 3, 10, 1, 2])
    minexp = rng.choice([1, 2, 4, 6])
    special = sp.meta.get("special")
    case.family = str(special)
    case.params = dict(n=len(S), actions=len(A), obs=len(OL), gamma=gamma, eps=eps, horizon=horizon, min_expansions=minexp)
    sar = np.array(pomdp.state_action_reward_matrix)
    if horizon is None and eps >= sar.max() - sar.min():
        # horizon = ceil(log(eps / (rmax - rmin)) / log(gamma)) is undefined (range 0 -> ZeroDivisionError) or
        # non-positive (eps >= range -> zero sweeps -> UnboundLocalError): a precondition of the algorithm's own
        # infinite-horizon formula, recorded as such and not judged
        raise Precondition("convergence threshold >= reward range with horizon=None (PBVI's horizon formula needs eps < rmax-rmin)")
    scale = max(1.0, np.abs(M.R).max() / (1 - gamma))
    tol = 1e-8 * scale
    facts = dict(special=special, gamma=gamma, horizon=horizon, eps=eps)
    captured = []

    def after(args, kwargs, out, exc):
        if exc is None:
            bs = kwargs.get("belief_set", args[1] if len(args) > 1 else None)
            captured.append(dict(belief_set=np.array(bs, copy=True), alphas=np.array(out["alpha_vectors"], copy=True),
                                 iterations=int(out["iterations"])))
    from mon import defaults as Dflt
    Dflt.in_force(case, "PointBasedValueIteration", PointBasedValueIteration(), passed={})     # a planner built with no arguments
    pbvi = PointBasedValueIteration(min_belief_expansions=minexp, max_belief_expansions=minexp + 2,
                                    value_convergence_epsilon=eps, horizon=horizon)
    if rng.random() < 0.3:
        # the same planner object first solves a same-size problem with much larger values
        import copy
        sib = copy.deepcopy(sp)
        if rng.random() < 0.5:
            for k_ in sib.R:
                sib.R[k_] = abs(sib.R[k_]) * 20.0 + 50.0
        else:
            # ... or a short-sighted one with small rewards (its own sweep budget is a handful of backups)
            sib.gamma = 0.3
            for k_ in sib.R:
                sib.R[k_] = sib.R[k_] * 0.01
        sib_pomdp = Bd.build_pomdp(sib, explicit=True)
        sar2 = np.array(sib_pomdp.state_action_reward_matrix)
        if horizon is not None or eps < sar2.max() - sar2.min():        # the same precondition as for the judged problem
            case.call("PBVI.plan_on(sibling first)", pbvi.plan_on, sib_pomdp, facts=facts)
            case.count("planner_reused")
    with wrap(pbvi_mod, "point_based_value_iteration", after=after) as w:
        res = case.call("PBVI.plan_on", pbvi.plan_on, pomdp, facts=facts)
    case.count("pbvi_calls")
    case.count("inner_pbvi_calls_captured", len(captured))
    stoch = any(len(sp.succ(s, a)) >= 2 for s in S for a in A) or any(sum(p > 0 for _, p in l) >= 2 for l in sp.O.values())
    case.nontrivial = len(A) >= 2 and stoch
    case.sig(len(S), len(A), len(OL), gamma, eps, horizon, minexp, special, tuple(sp.meta.get("abs_kinds", [])),
             sum(len(v) for v in sp.P.values()))
    case.sample = dict(spec=sp.describe(), config=case.params)
    if res is case.FAIL or not captured:
        return
    last = captured[-1]
    alphas = np.array(res.alpha_vectors)
    case.check(alphas.shape == last["alphas"].shape and np.array_equal(alphas, last["alphas"]),
               "returned-alpha-vectors-are-not-those-of-the-last-inner-call", "", **facts)
    k = last["iterations"]
    rmin = float(M.R.min())
    slack = (gamma ** k) * max(0.0, -rmin) / (1 - gamma)
    used = last["belief_set"]
    case.sample["k_backups"] = k
    case.sample["used_beliefs"] = len(used)

    qsolver = rng.choice(["default", "vi"])
    qm = case.call("QMDP.plan_on", QMDP(None if qsolver == "default" else ValueIteration(max_residual=1e-10)).plan_on,
                   pomdp, facts=dict(facts, qsolver=qsolver))
    case.count("qmdp_calls")
    qtol = tol + (1e-10 / (1 - gamma) if qsolver == "vi" else 0.0)

    # ---- beliefs ------------------------------------------------------------------------------------------
    beliefs = [np.array(b, dtype=float) for b in used]
    b0 = np.array(pomdp.initial_state_vec, dtype=float)
    cur = [b0]
    for _ in range(3):
        nxt = []
        for b in cur:
            ai = rng.randrange(len(A))
            for v, m in M.succ_unmasked(b, ai) if hasattr(M, "succ_unmasked") else _succ_unmasked(M, sp, b, ai):
                nxt.append(v / m)
        if not nxt:
            break
        cur = rng.sample(nxt, min(len(nxt), 2))
        beliefs.extend(cur)
    for _ in range(3):
        w_ = np.array(GP.G.rand_probs(rng, len(S)))
        beliefs.append(w_)
    for i in range(len(S)):
        e = np.zeros(len(S))
        e[i] = 1.0
        beliefs.append(e)
    beliefs = beliefs[:40 if case.tier == "quick" else 80]
    depth = 3 if (case.tier == "quick" or len(A) * len(OL) > 4) else 4
    for b in beliefs:
        L, U = M.bracket(b, depth)
        case.count("beliefs_bracketed")
        if not (L <= U + tol):
            raise Inconclusive("reference bracket inverted")
        # the belief is handed over in every form the policy classes accept: the Belief tuple, a plain list / tuple of
        # probabilities in state_list order, a numpy vector, a distribution over states
        bel_rep = rng.choice(["Belief", "Belief", "list", "tuple", "array", "array", "distribution"])
        bel = Belief(tuple(S), tuple(float(x) for x in b))       # (the QMDP policy class takes Belief tuples only)
        bel_p = {"Belief": lambda: bel, "list": lambda: [float(x) for x in b],
                 "tuple": lambda: tuple(float(x) for x in b), "array": lambda: np.array(b, dtype=float),
                 "distribution": lambda: DictDistribution({s_: float(x) for s_, x in zip(S, b) if x > 0})}[bel_rep]()
        case.count(f"belief_given_as:{bel_rep}")
        pv = case.call("pbvi.policy.value", res.policy.value, bel_p, facts=facts)
        if pv is not case.FAIL:
            case.check(float(pv) <= U + slack + tol, "pbvi-value-exceeds-optimal-upper-bracket+slack",
                       lambda: f"b={b.tolist()} PBVI={float(pv)!r} U={U!r} slack={slack!r} (k={k})", **facts)
        if qm is not case.FAIL:
            qv = case.call("qmdp.policy.value", qm.policy.value, bel, facts=facts)
            if qv is not case.FAIL:
                case.check(float(qv) >= L - qtol, "qmdp-value-below-optimal-lower-bracket",
                           lambda: f"b={b.tolist()} QMDP={float(qv)!r} L={L!r}", **facts)
                if pv is not case.FAIL:
                    case.check(float(pv) <= float(qv) + slack + qtol, "pbvi-exceeds-qmdp-by-more-than-slack",
                               lambda: f"b={b.tolist()} PBVI={float(pv)!r} QMDP={float(qv)!r} slack={slack!r}", **facts)
            # QMDP action values are belief-weighted optimal MDP action values
            for ai, a in enumerate(A):
                av = case.call("qmdp.policy.action_value", qm.policy.action_value, bel, a, facts=facts)
                case.count("qmdp_action_values_checked")
                if av is not case.FAIL:
                    want = float(b @ M.Qmdp[:, ai])
                    case.check(abs(float(av) - want) <= qtol, "qmdp-action-value!=belief-weighted-MDP-action-value",
                               lambda: f"b={b.tolist()} a={a!r}: {float(av)!r} vs {want!r}", **facts)
            # the same belief as a Belief whose states are listed in another order, and as support only
            perm = list(range(len(S)))
            rng.shuffle(perm)
            alt = [Belief(tuple(S[i] for i in perm), tuple(float(b[i]) for i in perm))]
            supp = [i for i in range(len(S)) if b[i] > 0]
            if supp:
                alt.append(Belief(tuple(S[i] for i in supp), tuple(float(b[i]) for i in supp)))
            for bel2 in alt:
                for ai, a in enumerate(A):
                    av2 = case.call("qmdp.policy.action_value(reordered belief)", qm.policy.action_value, bel2, a, facts=facts)
                    case.count("qmdp_reordered_beliefs_checked")
                    if av2 is not case.FAIL:
                        want = float(b @ M.Qmdp[:, ai])
                        case.check(abs(float(av2) - want) <= qtol, "qmdp-action-value-depends-on-how-the-belief-lists-its-states",
                                   lambda: f"belief {bel2!r} a={a!r}: {float(av2)!r} vs {want!r}", **facts)
            if special == "full":
                vstar = float((b @ M.Qmdp).max())
                qv2 = qm.policy.value(bel)
                case.check(abs(float(qv2) - vstar) <= qtol, "fully-observable:qmdp-value!=optimal",
                           lambda: f"b={b.tolist()} QMDP={float(qv2)!r} V*={vstar!r}", **facts)
        # action distributions: uniform over exactly the maximisers of the policy's own action value
        if "fee_policy" not in locals():
            from msdm.core.pomdp.alphavectorpolicy import AlphaVectorPolicy as _AVP
            fee_action = A[0]

            class FeePolicy(_AVP):
                def action_value(self_, b_, a_):
                    return _AVP.action_value(self_, b_, a_) - (2.5 if a_ == fee_action else 0.0)
            fee_policy = case.call("AlphaVectorPolicy-subclass", FeePolicy, pomdp, np.array(res.policy.alpha_vectors))
            case.count("value_policies_with_overridden_action_value")
        for pol, nm in ((res.policy, "pbvi"), (qm.policy if qm is not case.FAIL else None, "qmdp"),
                        (fee_policy if fee_policy is not case.FAIL else None, "subclass-overriding-action_value")):
            if pol is None:
                continue
            bel_q = bel_p if nm in ("pbvi", "subclass-overriding-action_value") else bel
            d = case.call(f"{nm}.policy.action_dist", pol.action_dist, bel_q, facts=facts)
            case.count("action_dists_checked")
            if d is case.FAIL:
                continue
            av = {a: pol.action_value(bel_q, a) for a in A}
            if nm == "pbvi":
                # downstream use of the returned policy: its action values are the one-step look-ahead over ITS OWN value function
                # (expected immediate reward of the whole belief + discounted value of the Bayes successors under the model's dynamics)
                bv = np.array(b, dtype=float)
                for ai_, a_ in enumerate(A):
                    la = float(bv @ M.arr.ER[:, ai_])
                    for v_, m_ in _succ_unmasked(M, sp, bv, ai_):
                        la += gamma * m_ * float(pol.value(v_ / m_))
                    case.count("lookahead_action_values_checked")
                    case.check(abs(float(av[a_]) - la) <= 1e-9 * max(1.0, abs(la)), "pbvi:action_value!=one-step-lookahead-over-own-value",
                               lambda: f"b={bv.tolist()} a={a_!r}: {av[a_]!r} vs {la!r}", **facts)
            mx = max(av.values())
            best = {a for a in A if av[a] == mx}
            got = {a: p for a, p in d.items() if p > 0}
            case.check(set(got) == best and all(abs(p - 1.0 / len(best)) <= 1e-12 for p in got.values()),
                       f"{nm}:action_dist-not-uniform-over-own-maximisers", lambda: f"b={b.tolist()}: {got!r} vs {best!r} {av!r}", **facts)
    # ---- point-based residual at the used beliefs when the inner loop stopped early ------------------------------
    # (with horizon=None the sweep budget is the documented ceil(log(eps/(rmax-rmin))/log(gamma)))
    H_eff = horizon if horizon is not None else int(np.ceil(np.log(eps / (sar.max() - sar.min())) / np.log(gamma)))
    if k < H_eff - 1:
        case.count("early_stops_checked")
        for b in used:
            bk = M.backup(np.array(b, dtype=float), last["alphas"])
            cur_v = float((last["alphas"] @ b).max())
            case.check(abs(bk - cur_v) < eps + tol, "point-based-residual>=threshold-although-inner-loop-stopped-early",
                       lambda: f"b={np.array(b).tolist()} value={cur_v!r} backup={bk!r} eps={eps}", **facts)
    # ---- fully observable: on a successor-closed belief set PBVI is k-step exact ----------------------------------
    if special == "full":
        closed = True
        for b in used:
            for ai in range(len(A)):
                for v, m in M.succ(np.array(b, dtype=float), ai):
                    nb = v / m
                    if not any(np.allclose(nb, u, atol=1e-9) for u in used):
                        closed = False
        case.count("full_obs_closed_sets" if closed else "full_obs_open_sets")
        if closed:
            span = float(np.abs(M.R).max())
            for b in used:
                b = np.array(b, dtype=float)
                vstar = float((b @ M.Qmdp).max())
                pv = float((last["alphas"] @ b).max())
                case.check(abs(pv - vstar) <= (gamma ** k) * span / (1 - gamma) + eps / (1 - gamma) + tol,
                           "fully-observable:pbvi-value-not-within-slack-of-optimal",
                           lambda: f"b={b.tolist()} PBVI={pv!r} V*={vstar!r} k={k}", **facts)


def _succ_unmasked(M, sp, b, ai):
    """normalisable successor beliefs under the REAL dynamics (no absorbing mask): what a roll-out reaches"""
    pred = b @ M.arr.T[:, ai, :]
    out = []
    for kk in range(len(M.OL)):
        v = pred * M.O[ai, :, kk]
        m = v.sum()
        if m > 0:
            out.append((v, m))
    return out
