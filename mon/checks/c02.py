"""C02 — exact policy evaluation (TabularPolicy.evaluate_on) solves the Bellman expectation
equations. Monitor: boundary recorder on evaluate_on / to_tabular + array purity sentinel.
Oracle: mon.ref.mdp.evaluate_policy_matrix (linear solve / SCC analysis) + self-consistency."""
import numpy as np

from mon.case import Inconclusive
from mon.gen import mdp as G
from mon.ref import mdp as Rf

PROP = "C02"
CASES = {"quick": 1500, "thorough": 100000}
CASE_TIMEOUT = 60
REQUIRED = ["evaluate_on_calls", "values_compared", "minus_inf_pattern_compared", "to_tabular_calls"]
RULE = ("random stochastic policies (rows with zeros / deterministic rows) x random MDP specs "
        "(any, proper, sspneg, zerocycle; gamma<1 and gamma=1 with non-positive rewards) x policy "
        "presentation (same order, permuted orders, FunctionalPolicy.to_tabular). distinct = "
        "structural signature; non-trivial = some non-absorbing state where the policy mixes >=2 "
        "actions or the chain branches.")
ASSUMPTIONS = ["reference evaluation in mon/ref/mdp.py (numpy solve + own Tarjan SCC); float64",
               "action values at absorbing states are not judged (the statement fixes only their state value 0)"]


def _corridor(rng):
    """a long single-row corridor (6-40 cells) walked to the right at gamma = 1; its far end is either an absorbing
    goal or a closed loop that pays a cost (then every cell is worth -inf, however far away it is)"""
    n = rng.choice([6, 7, 9, 10, 12, 15, 20, 33, 40])
    sp = G.Spec()
    sp.family = "corridor"
    sp.gamma = 1.0
    sp.states = list(range(n))
    end_loop = rng.random() < 0.6
    for i in range(n):
        sp.acts[i] = ("right", "stay")
        nxt = min(i + 1, n - 1)
        sp.P[(i, "right")] = [(nxt, 1.0)] if rng.random() < 0.7 or i == n - 1 else [(nxt, 0.5), (i, 0.5)]
        sp.kind[(i, "right")] = "dict"
        for t_, _ in sp.P[(i, "right")]:
            sp.R[(i, "right", t_)] = -1.0
        sp.P[(i, "stay")] = [(i, 1.0)]
        sp.kind[(i, "stay")] = "dict"
        sp.R[(i, "stay", i)] = 0.0
    if not end_loop:
        sp.flag = {n - 1}
    sp.init = [(rng.choice([0, 0, 1, n // 2]), 1.0)]
    sp.meta.update(abs_kinds=["zero"] if sp.flag else [], label_kind="int", abs_type="bool", num_type="float",
                   actions_type="tuple", fresh_labels=False, corridor=n)
    return sp


def _wide_corridor(rng):
    """HUNDREDS of cells, each step lands uniformly on one of the next 5 cells, gamma = 1: the number of distinct walks between
    two cells leaves float range long before the end; the far end is an absorbing goal or a closed loop that pays a cost"""
    n = rng.choice([520, 600, 640])
    sp = G.Spec()
    sp.family = "wide-corridor"
    sp.gamma = 1.0
    sp.states = list(range(n))
    end_loop = rng.random() < 0.3
    for i in range(n):
        sp.acts[i] = ("go", "stay")
        succ = sorted({min(i + k, n - 1) for k in range(1, 6)})
        sp.P[(i, "go")] = [(t_, 1.0 / len(succ)) for t_ in succ]
        sp.kind[(i, "go")] = "dict"
        for t_ in succ:
            sp.R[(i, "go", t_)] = -1.0
        sp.P[(i, "stay")] = [(i, 1.0)]
        sp.kind[(i, "stay")] = "dict"
        sp.R[(i, "stay", i)] = 0.0
    if not end_loop:
        sp.flag = {n - 1}
    sp.init = [(0, 1.0)]
    sp.meta.update(abs_kinds=["zero"] if sp.flag else [], label_kind="int", abs_type="bool", num_type="float",
                   actions_type="tuple", fresh_labels=False, corridor=n)
    return sp


def run_case(case, rng):
    from msdm.core.mdp import TabularPolicy, FunctionalPolicy
    from msdm.core.distributions import DictDistribution
    from mon.gen import build as Bd
    from mon.probe import read as Rd

    fam = rng.choice(["any", "any", "proper", "sspneg", "zerocycle", "zerocycle", "zerocycle", "properneg"])
    n_max = 10 if case.tier == "thorough" and rng.random() < 0.3 else 7
    if fam == "properneg":
        sp = G.random_spec(rng, "proper", n_max=n_max, gamma=1.0, reward_sign="neg")
    elif fam == "proper":
        g = rng.choice([0.5, 0.9, 0.99])
        sp = G.random_spec(rng, "proper", n_max=n_max, gamma=g)
    else:
        sp = G.random_spec(rng, fam, n_max=n_max)
    if fam in ("any", "proper") and rng.random() < 0.08:
        # discounted, but only just: a discount rate within 1e-5 of 1 is still a discount rate (finite values everywhere)
        sp.gamma = rng.choice([1 - 1e-6, 1 - 1e-7, 0.99999])
        sp.meta["discount_just_below_one"] = True
    if fam == "any" and rng.random() < 0.08:
        # fully myopic: a discount rate of 0 (the value of a state is its expected immediate reward), spelled in several ways
        sp.gamma = rng.choice([0, 0.0, False, np.float64(0.0), np.int64(0)])
        sp.meta["discount_zero_as"] = type(sp.gamma).__name__
    corridor = rng.random() < 0.08
    if corridor:
        fam = "corridor"
        sp = _corridor(rng)
    rep = rng.choice(Bd.REPRS)
    if rng.random() < (0.004 if case.tier == "quick" else 0.0005):
        corridor, fam, sp, rep = True, "wide-corridor", _wide_corridor(rng), "subclass"
        case.count("models_with_hundreds_of_states")
    if not rep.endswith("explicit"):
        G.restrict_to_closure(sp, rng)
    mdp = Bd.build(sp, rep, shuffle_rng=rng)
    pol = G.random_policy(rng, sp, prefer_zero_reward=(sp.gamma == 1.0 and rng.random() < 0.7))
    if corridor:
        pol = {s_: {sp.acts[s_][0]: 1.0} for s_ in sp.states}
    pres = rng.choice(["same", "permuted", "to_tabular", "subclass_to_tabular"])
    case.family = fam
    case.params = dict(rep=rep, gamma=sp.gamma, n=len(sp.states), presentation=pres)

    S = case.call("state_list", lambda: list(mdp.state_list))
    A = case.call("action_list", lambda: list(mdp.action_list))
    if S is case.FAIL or A is case.FAIL:
        return
    if set(S) != set(sp.states) or len(S) != len(sp.states):
        raise Inconclusive("state_list differs from spec closure (C06's subject)")
    arr = Rf.Arr(sp, states=S, actions=A)
    gamma = sp.gamma
    pim = np.zeros((len(S), len(A)))
    for s, row in pol.items():
        for a, p in row.items():
            pim[arr.si[s], arr.ai[a]] = p

    # ---- present the policy -------------------------------------------------------------------
    if pres == "same":
        tp = case.call("TabularPolicy.from_state_action_lists", TabularPolicy.from_state_action_lists,
                       state_list=S, action_list=A, data=pim.copy())
    elif pres == "permuted":
        S2, A2 = S[:], A[:]
        rng.shuffle(S2)
        rng.shuffle(A2)
        data = np.array([[pim[arr.si[s], arr.ai[a]] for a in A2] for s in S2])
        tp = case.call("TabularPolicy.from_state_action_lists", TabularPolicy.from_state_action_lists,
                       state_list=S2, action_list=A2, data=data)
    elif pres == "subclass_to_tabular":
        # a policy written by SUBCLASSING TabularPolicy and overriding the public action_dist (the stored table is only a
        # starting point: here the first available action everywhere); what it says is evaluated via to_tabular
        class Overriding(TabularPolicy):
            def action_dist(self_, s_):
                return DictDistribution(pol[s_])
        stored = np.zeros((len(S), len(A)))
        for s_ in S:
            stored[arr.si[s_], arr.ai[sp.acts[s_][0]]] = 1.0
        op = case.call("TabularPolicy-subclass", Overriding.from_state_action_lists, state_list=S, action_list=A, data=stored)
        tp = case.FAIL if op is case.FAIL else case.call("Policy.to_tabular(subclass)", op.to_tabular, S, A)
        case.count("to_tabular_calls")
        if tp is not case.FAIL:
            got = Rd.mat(tp, S, A)
            case.check(np.array_equal(got, pim), "to_tabular-differs-from-policy",
                       lambda: f"subclass overriding action_dist: {got.tolist()} vs {pim.tolist()}")
    else:
        fp = FunctionalPolicy(lambda s: DictDistribution(pol[s]))
        S2, A2 = S[:], A[:]
        rng.shuffle(S2)
        rng.shuffle(A2)
        tp = case.call("Policy.to_tabular", fp.to_tabular, S2, A2)
        case.count("to_tabular_calls")
        if tp is not case.FAIL:
            got = Rd.mat(tp, S, A)
            case.check(np.array_equal(got, pim), "to_tabular-differs-from-policy",
                       lambda: f"{got.tolist()} vs {pim.tolist()}")
    if pres not in ("to_tabular", "subclass_to_tabular"):
        case.count("to_tabular_calls", 0)
    if tp is case.FAIL:
        return

    pinned = arr.absorbing.copy()
    ev = Rf.evaluate_policy_matrix(arr, pim, pinned, gamma)
    occ = Rf.occupancy(arr, pim, pinned, gamma)
    Vr, Qr = ev["V"], ev["Q"]
    finiteV = Vr[np.isfinite(Vr)]
    scale = max(1.0, np.abs(finiteV).max() if finiteV.size else 1.0)
    tol = 1e-9 * scale
    if gamma < 1:
        cond = np.linalg.cond(ev["M"])
        tol = max(tol, 1e-13 * cond * scale)
    mixes = any((not pinned[i]) and ((pim[i] > 0).sum() >= 2 or (ev["P"][i] > 0).sum() >= 2)
                for i in range(len(S)))
    case.nontrivial = bool(mixes)
    case.sig(fam, len(S), len(A), gamma, tuple(sp.meta.get("abs_kinds", [])), rep, pres,
             int((pim > 0).sum()), int((arr.T > 0).sum()), int(np.isinf(Vr).sum()),
             round(float(np.nansum(np.where(np.isfinite(Vr), Vr, 0))), 6))
    if gamma == 1.0:
        case.count("undiscounted_cases")
        case.count("cases_with_minus_inf_values", int(np.isneginf(Vr).any()))
        case.count("cases_with_zero_reward_recurrent_class", int((ev["recurrent"] & (ev["r"] == 0)).any()))
    case.sample = dict(spec=sp.describe(), policy={repr(s): {repr(a): p for a, p in r.items()}
                                                   for s, r in list(pol.items())[:6]},
                       reference_V=[repr(float(v)) for v in Vr], presentation=pres)

    purity = Rd.Purity(mdp)
    res = case.call("evaluate_on", tp.evaluate_on, mdp, facts=dict(gamma=gamma))
    case.count("evaluate_on_calls")
    if res is case.FAIL:
        return
    V = Rd.vec(res.state_value, S)
    Q = Rd.mat(res.action_value, S, A, default=np.nan)
    O = Rd.vec(res.state_occupancy, S)
    iv = float(res.initial_value)

    # -inf pattern must match exactly
    case.count("minus_inf_pattern_compared")
    case.check(np.array_equal(np.isneginf(V), np.isneginf(Vr)), "minus-inf-pattern-differs",
               lambda: f"V={V.tolist()} ref={Vr.tolist()}", gamma=gamma)
    for i in range(len(S)):
        case.count("values_compared")
        if pinned[i]:
            # worth 0 up to the round-off of the library's matrix inverse (7e-16 observed in the thorough tier)
            case.check(abs(V[i]) <= tol, "absorbing-state-value!=0", f"V[{S[i]!r}]={V[i]}")
            continue
        if np.isfinite(Vr[i]):
            case.check(np.isfinite(V[i]) and abs(V[i] - Vr[i]) <= tol, "state_value-differs",
                       lambda: f"V[{S[i]!r}]={V[i]!r} ref={Vr[i]!r} tol={tol:.3g}", gamma=gamma)
        for j in range(len(A)):
            if not arr.avail[i, j]:
                case.check(Q[i, j] == -np.inf, "unavailable-action-not-minus-inf",
                           lambda: f"Q[{S[i]!r},{A[j]!r}]={Q[i, j]!r}")
            elif np.isfinite(Qr[i, j]):
                case.check(np.isfinite(Q[i, j]) and abs(Q[i, j] - Qr[i, j]) <= tol, "action_value-differs",
                           lambda: f"Q[{S[i]!r},{A[j]!r}]={Q[i, j]!r} ref={Qr[i, j]!r}", gamma=gamma)
            else:
                case.check(Q[i, j] == Qr[i, j], "action_value-inf-pattern-differs",
                           lambda: f"Q[{S[i]!r},{A[j]!r}]={Q[i, j]!r} ref={Qr[i, j]!r}", gamma=gamma)
        # self-consistency (Bellman expectation equation on msdm's own numbers)
        if np.isfinite(V[i]):
            rhs = sum(pim[i, j] * Q[i, j] for j in range(len(A)) if pim[i, j] > 0)
            case.check(abs(V[i] - rhs) <= 10 * tol, "bellman-expectation-residual",
                       lambda: f"V[{S[i]!r}]={V[i]!r} sum_a pi*Q={rhs!r}", gamma=gamma)
    # occupancy
    for i in range(len(S)):
        if np.isfinite(occ[i]):
            otol = 1e-9 * max(1.0, abs(occ[i])) if gamma == 1 else max(1e-9, 1e-13 * np.linalg.cond(ev["M"])) * max(1.0, abs(occ[i]))
            case.check(np.isfinite(O[i]) and abs(O[i] - occ[i]) <= otol, "state_occupancy-differs",
                       lambda: f"occ[{S[i]!r}]={O[i]!r} ref={occ[i]!r}", gamma=gamma)
        else:
            case.check(O[i] == occ[i], "state_occupancy-inf-pattern-differs",
                       lambda: f"occ[{S[i]!r}]={O[i]!r} ref={occ[i]!r}", gamma=gamma)
    # initial value
    iv_ref = 0.0
    for i in range(len(S)):
        if arr.init[i] > 0:
            iv_ref += arr.init[i] * Vr[i]
    if np.isfinite(iv_ref):
        case.check(np.isfinite(iv) and abs(iv - iv_ref) <= tol, "initial_value-differs", f"{iv!r} vs {iv_ref!r}", gamma=gamma)
    else:
        case.check(iv == iv_ref, "initial_value-differs", f"{iv!r} vs {iv_ref!r}", gamma=gamma)
    ch = purity.changed()
    case.check(not ch, "purity:mdp-arrays-mutated", f"changed: {ch}")
    # the same policy object evaluated again on the same MDP object must give the same answer - also when ANOTHER policy object
    # (same labels, other probabilities) was evaluated on that MDP in between
    if rng.random() < 0.4 and len(S) <= 40:
        pol_b = G.random_policy(rng, sp)
        pim_b = np.zeros((len(S), len(A)))
        for s_, row_ in pol_b.items():
            for a_, p_ in row_.items():
                pim_b[arr.si[s_], arr.ai[a_]] = p_
        tp_b = case.call("TabularPolicy.from_state_action_lists(second policy)", TabularPolicy.from_state_action_lists,
                         state_list=S, action_list=A, data=pim_b)
        if tp_b is not case.FAIL:
            case.call("evaluate_on(second policy in between)", tp_b.evaluate_on, mdp, facts=dict(gamma=gamma))
            case.count("evaluations_interleaved_with_another_policy")
    res2 = case.call("evaluate_on(repeat)", tp.evaluate_on, mdp, facts=dict(gamma=gamma))
    case.count("repeat_evaluations")
    if res2 is not case.FAIL:
        V2 = Rd.vec(res2.state_value, S)
        O2 = Rd.vec(res2.state_occupancy, S)
        same = np.array_equal(V, V2, equal_nan=True) and np.array_equal(O, O2, equal_nan=True) and \
            (float(res2.initial_value) == iv or (iv != iv and float(res2.initial_value) != float(res2.initial_value)))
        case.check(same, "second-evaluation-on-the-same-objects-differs",
                   lambda: f"V {V.tolist()} -> {V2.tolist()} ; occupancy {O.tolist()} -> {O2.tolist()}", gamma=gamma)
