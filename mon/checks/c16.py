"""C16 — multichain policy iteration, when it reports convergence, is gain/value optimal.
Monitor: boundary recording of MultichainPolicyIteration.plan_on; `converged` gate.
Oracle: reference V* (gamma<1) / optimal gain from the multichain LP (gamma=1); exact evaluation of
the returned (possibly stochastic) policy."""
import numpy as np

from mon.case import Inconclusive
from mon.gen import mdp as G
from mon.ref import mdp as Rf
from mon.ref import gain as Gn

PROP = "C16"
CASES = {"quick": 500, "thorough": 40000}
CASE_TIMEOUT = 90
REQUIRED = ["plan_calls", "converged_discounted", "converged_undiscounted", "gain_entries_compared",
            "value_entries_compared", "policy_rows_checked"]
RULE = ("random MDP specs: family any (gamma<1, rewards of either sign, live/zero/implicit absorbing states) and "
        "family avg (gamma=1: unichain and multichain structure, with/without zero-loop absorbing states; no "
        "action-less states) x 4 representations x iteration caps {50,1000}. Non-converged runs are counted, not "
        "judged. distinct = structural signature; non-trivial = >=2 states with >=2 actions somewhere or branching.")
ASSUMPTIONS = ["optimal gain from scipy.optimize.linprog (HiGHS) on Puterman's multichain LP",
               "gain of the returned policy from closed classes + absorption probabilities (own Tarjan)",
               "tolerance 1e-6*scale: the implementation solves normal equations (squared condition number)"]


def _funnel(rng):
    """undiscounted multichain structure: a few closed sinks that offer every action (each step there costs), fed by
    transient states that offer only SOME of the actions; costs of order 1 or of order 1000 per step"""
    sp = G.Spec()
    sp.family = "funnel"
    sp.gamma = 1.0
    acts = rng.choice([("go", "alt"), ("go", "alt", "wait")])
    ks, kt = rng.randint(1, 3), rng.randint(1, 3)
    plain = rng.random() < 0.5        # free moves between pure self-loop sinks of different cost: the bias ties across sinks, only the gain tells them apart
    if plain:
        ks = rng.randint(2, 3)
    sinks = ["sink%d" % i for i in range(ks)]
    trans = ["t%d" % i for i in range(kt)]
    sp.states = trans + sinks
    scale = rng.choice([1.0, 1000.0, 1000.0, 5000.0])
    for s_ in sinks:
        sp.acts[s_] = tuple(acts)
        for a in acts:
            if plain or rng.random() < 0.7:
                lst = [(s_, 1.0)]
            else:
                other = rng.choice(sinks)
                lst = [(s_, 0.75), (other, 0.25)] if other != s_ else [(s_, 1.0)]
            sp.P[(s_, a)] = lst
            sp.kind[(s_, a)] = "dict"
            for t, _ in lst:
                sp.R[(s_, a, t)] = -scale * rng.choice([1.0, 1.5, 2.0, 3.0])
    for i, s_ in enumerate(trans):
        sp.acts[s_] = tuple(rng.sample(acts, rng.randint(1, len(acts) - 1)))       # a strict subset
        if plain:
            sp.acts[s_] = tuple(rng.sample(acts, rng.randint(2, len(acts))))       # (a real choice between sinks)
        for a in sp.acts[s_]:
            down = trans[i + 1:] + sinks
            succ = rng.sample(down, min(len(down), rng.choice([1, 2])))
            pr = G.rand_probs(rng, len(succ))
            sp.P[(s_, a)] = list(zip(succ, pr))
            sp.kind[(s_, a)] = "dict"
            if plain:
                succ = [rng.choice(sinks)] if rng.random() < 0.7 else succ[:1]
                sp.P[(s_, a)] = [(succ[0], 1.0)]
            for t in succ:
                sp.R[(s_, a, t)] = 0.0 if plain else -scale * rng.choice([0.0, 1.0, 1.0])
    sp.init = [(trans[0], 1.0)]
    sp.meta.update(abs_kinds=[], label_kind="str", abs_type="bool", num_type="float", actions_type="tuple",
                   fresh_labels=False, reward_scale=scale)
    return sp


def _corridor(rng):
    """a LONG deterministic corridor or grid (26-48 cells), every step costs 1, the far end is absorbing and free: optimal gain 0
    everywhere when undiscounted - evaluation systems with as many equations as there are cells"""
    sp = G.Spec()
    sp.family = "corridor"
    sp.gamma = rng.choice([1.0, 1.0, 0.95])
    w, h = rng.choice([(26, 1), (28, 1), (30, 1), (34, 1), (6, 5), (6, 5), (8, 4), (8, 4), (16, 2), (16, 2), (7, 6), (5, 6), (4, 8)])
    cells = [(x, y) for y in range(h) for x in range(w)]
    name = {c: "c%d_%d" % c for c in cells}
    goal = (w - 1, h - 1)
    moves = {"e": (1, 0), "w": (-1, 0)} if h == 1 else {"e": (1, 0), "w": (-1, 0), "n": (0, 1), "s": (0, -1)}
    order_ = list(moves)
    rng.shuffle(order_)                      # (the first listed action is the planner's starting policy)
    moves = {a: moves[a] for a in order_}
    sp.states = [name[c] for c in cells]
    for c in cells:
        s_ = name[c]
        sp.acts[s_] = tuple(moves)
        for a, (dx, dy) in moves.items():
            t = (c[0] + dx, c[1] + dy)
            t = t if t in name else c
            if c == goal:
                t = c
            sp.P[(s_, a)] = [(name[t], 1.0)]
            sp.kind[(s_, a)] = "dict"
            sp.R[(s_, a, name[t])] = 0.0 if c == goal else -1.0
    sp.init = [(name[(0, 0)], 1.0)]
    sp.meta.update(abs_kinds=[], label_kind="str", abs_type="bool", num_type="float", actions_type="tuple",
                   fresh_labels=False, reward_scale=1.0)
    return sp


def run_case(case, rng):
    from msdm.algorithms.multichainpolicyiteration import MultichainPolicyIteration
    from mon.gen import build as Bd
    from mon.probe import read as Rd

    fam = rng.choice(["any", "avg", "avg"])
    n_max = 9 if case.tier == "thorough" and rng.random() < 0.3 else 6
    sp = G.random_spec(rng, fam, n_max=n_max, allow_dup_actions=True,
                       reward_scale=rng.choice([1.0] * 5 + [1000.0]))      # gains / values in the thousands too
    if rng.random() < 0.1:
        fam, sp = "funnel", _funnel(rng)
    if rng.random() < 0.05:
        fam, sp = "corridor", _corridor(rng)
    rep = rng.choice(Bd.REPRS)
    if rng.random() < 0.12:
        rep = "annotated"       # equal-but-distinct state objects whose step note the reward function reads
    if not rep.endswith("explicit"):
        G.restrict_to_closure(sp, rng)
    sp.init = [(s, p) for s, p in sp.init if p > 0]
    sp_model = sp
    if sp.flag and rng.random() < 0.35:
        # an explicitly absorbing state never collects reward: its own reward entries are a don't-care, and a caller may put a
        # placeholder there ("nothing is defined after termination"): -inf / +inf. The reference keeps the finite spec.
        import copy as _copy
        sp_model = _copy.deepcopy(sp)
        ph = rng.choice([float("-inf"), float("inf")])
        for (s_, a_, t_) in list(sp_model.R):
            if s_ in sp_model.flag:
                sp_model.R[(s_, a_, t_)] = ph
        for s_ in sp_model.flag:
            for a_ in sp_model.acts.get(s_, ()):
                for t_, _p in sp_model.P.get((s_, a_), []):
                    sp_model.R[(s_, a_, t_)] = ph
        case.count("models_with_infinite_placeholder_rewards_at_absorbing_states")
    mdp = Bd.build(sp_model, rep, shuffle_rng=rng)
    S, A = list(mdp.state_list), list(mdp.action_list)
    if set(S) != set(sp.states):
        raise Inconclusive("state_list differs from closure (C06's subject)")
    gamma = sp.gamma
    cap = rng.choice([50, 1000, 1000, 1, 2, 5])
    if gamma <= 0.95 and rng.random() < 0.3:
        cap = 100000      # the documented default (then usually left out); discounted problems only - an undiscounted run that
        #                   cycles takes a minute to exhaust it
    if fam == "corridor":
        cap = rng.choice([50, 200])       # (a sibling with paid steps cycles until the cap: keep that short at this size)
    arr = Rf.Arr(sp, states=S, actions=A)
    pinned = arr.absorbing.copy()
    case.family = fam
    case.params = dict(rep=rep, gamma=gamma, n=len(S), cap=cap)
    from mon import defaults as Dflt
    mkw, _om = Dflt.rely_on_defaults(case, rng, "MultichainPolicyIteration", dict(max_iterations=cap), p=0.8)
    planner = MultichainPolicyIteration(**mkw)
    Dflt.in_force(case, "MultichainPolicyIteration", planner, passed=mkw)
    import copy
    sib = copy.deepcopy(sp)                       # same labels and shapes, fewer available actions, other rewards
    for s_ in sib.states:
        if len(sib.acts[s_]) >= 2 and rng.random() < 0.5:
            sib.acts[s_] = (rng.choice(sib.acts[s_]),)
    for k_ in sib.R:
        sib.R[k_] = -sib.R[k_] + 1.0
    sib_mdp = Bd.SpecMDP(sib)
    sib_mdp._state_list = tuple(mdp.state_list)
    sib_mdp._action_list = tuple(mdp.action_list)
    mode = rng.choice(["fresh", "fresh", "reuse_before", "reuse_before_superset", "read_after"])
    if mode == "reuse_before":
        case.call("plan_on(sibling first)", planner.plan_on, sib_mdp)
        case.count("planner_reused")
    if mode == "reuse_before_superset":
        # first a sibling in which every state ALSO offers the actions it lacks here, and they pay well: its solution
        # uses actions that are unavailable in the judged problem (a warm start must not leak them)
        sup = copy.deepcopy(sp)
        universe = list(mdp.action_list)
        for s_ in sup.states:
            if s_ in sup.flag:
                continue
            for a_ in universe:
                if a_ not in sup.acts[s_]:
                    a0 = sup.acts[s_][0]
                    sup.acts[s_] = tuple(sup.acts[s_]) + (a_,)
                    sup.P[(s_, a_)] = list(sup.P[(s_, a0)])
                    sup.kind[(s_, a_)] = sup.kind[(s_, a0)]
                    for t_, _ in sup.P[(s_, a0)]:
                        sup.R[(s_, a_, t_)] = sup.R.get((s_, a0, t_), 0.0) + 10.0
        sup_mdp = Bd.SpecMDP(sup)
        sup_mdp._state_list = tuple(mdp.state_list)
        sup_mdp._action_list = tuple(mdp.action_list)
        case.call("plan_on(superset sibling first)", planner.plan_on, sup_mdp)
        case.count("planner_reused")
    # probe on the algorithm's own rank test: how many rows it kept, and how many are truly independent
    from msdm.algorithms import multichainpolicyiteration as mc_mod
    from mon.probe.wrap import wrap
    rank_calls = []

    def after_rank(args, kwargs, out, exc):
        if exc is None:
            rank_calls.append((len(out), int(np.linalg.matrix_rank(args[0]))))
    with wrap(mc_mod, "independent_row_indices", after=after_rank):
        res = case.call("MultichainPolicyIteration.plan_on", planner.plan_on, mdp, facts=dict(gamma=gamma))
    case.count("rank_test_calls_observed", len(rank_calls))
    if mode == "read_after" and res is not case.FAIL:
        case.call("plan_on(sibling afterwards)", MultichainPolicyIteration(max_iterations=cap).plan_on, sib_mdp)
        case.call("plan_on(sibling afterwards, same planner)", planner.plan_on, sib_mdp)
        case.count("result_read_after_later_plans")
    case.count("plan_calls")
    case.nontrivial = len(S) >= 2 and bool((arr.avail.sum(-1) >= 2).any() or ((arr.T > 0).sum(-1) >= 2).any())
    case.sig(fam, rep, len(S), len(A), gamma, cap, int((arr.T > 0).sum()), int(arr.avail.sum()), int(pinned.sum()))
    case.sample = dict(spec=sp.describe(), config=case.params)
    if res is case.FAIL:
        return
    if not bool(res.converged):
        case.count("not_converged")
        for k in ("converged_discounted", "converged_undiscounted", "gain_entries_compared", "value_entries_compared",
                  "policy_rows_checked"):
            case.count(k, 0)
        return
    PI = Rd.mat(res.policy, S, A)
    facts = dict(gamma=gamma, family=fam)
    ok_rows = True
    for i in range(len(S)):
        case.count("policy_rows_checked")
        row = PI[i]
        good = np.isfinite(row).all() and abs(row.sum() - 1) <= 1e-9 and not ((row > 0) & ~arr.avail[i]).any() and (row >= 0).all()
        if pinned[i] and not arr.avail[i].any():
            continue
        if not case.check(good, "policy-row-invalid-or-unavailable-action", f"state {S[i]!r}: {row.tolist()!r} avail {arr.avail[i].tolist()!r}", **facts):
            ok_rows = False
    if gamma < 1:
        case.count("converged_discounted")
        case.count("converged_undiscounted", 0)
        case.count("gain_entries_compared", 0)
        sol = Rf.solve(arr, gamma, pinned)
        if not sol.ok:
            raise Inconclusive("reference not certified")
        V = Rd.vec(res.state_value, S)
        # the improvement step keeps the current action when np.isclose(Q[current], max Q) (rtol 1e-5, atol 1e-8):
        # iteration legitimately stops at a policy whose actions are up to delta below the best one, and then
        # V* - V^pi <= delta/(1-gamma)  (the same bound C01 uses for policy iteration)
        qmax = float(np.abs(Rd.mat(res.action_value, S, A)[arr.avail]).max()) if arr.avail.any() else 0.0
        if not np.isfinite(qmax):
            qmax = sol.scale
        tol = max(1e-6 * sol.scale / (1 - gamma), (1e-8 + 1e-5 * qmax) / (1 - gamma))
        # a discounted problem has gain exactly 0; a clearly non-zero reported gain means the
        # implementation's rank test dropped an independent row (known finding, see known.py)
        facts = dict(facts, max_abs_reported_gain=float(np.abs(Rd.vec(res.state_gain, S)).max()),
                     rank_test_dropped_rows=(rank_calls[-1][1] - rank_calls[-1][0]) if rank_calls else None)
        for i in range(len(S)):
            case.count("value_entries_compared")
            case.check(abs(V[i] - sol.V[i]) <= tol, "state_value!=optimal-discounted-value",
                       f"V[{S[i]!r}]={V[i]!r} V*={sol.V[i]!r} tol={tol:.3g}", **facts)
        # the other accessors of the same result: action values are the one-step look-ahead of the state values, and the
        # initial value is their expectation under the initial distribution
        QA = Rd.mat(res.action_value, S, A)
        Qref = Rf.q_from_v(*Rf._masked(arr, pinned), gamma, V, arr.avail)
        badq = [(i, j) for i in range(len(S)) for j in range(len(A))
                if arr.avail[i, j] and not pinned[i] and abs(QA[i, j] - Qref[i, j]) > tol]
        case.count("action_value_entries_compared", int(arr.avail.sum()))
        case.check(not badq, "action_value!=one-step-look-ahead-of-state_value",
                   lambda: f"at {[(S[i], A[j], QA[i, j], Qref[i, j]) for i, j in badq[:2]]!r}", **facts)
        iv = float(res.initial_value)
        case.check(abs(iv - sum(p * V[arr.si[s]] for s, p in sp.init)) <= 1e-9 * max(1.0, sol.scale), "initial_value!=E[state_value]", repr(iv), **facts)
        if ok_rows:
            ev = Rf.evaluate_policy_matrix(arr, PI, pinned, gamma)
            for i in range(len(S)):
                case.check(abs(ev["V"][i] - sol.V[i]) <= tol, "returned-policy-not-value-optimal",
                           f"V^pi[{S[i]!r}]={ev['V'][i]!r} V*={sol.V[i]!r}", **facts)
    else:
        case.count("converged_undiscounted")
        case.count("converged_discounted", 0)
        case.count("value_entries_compared", 0)
        gstar = Gn.optimal_gain_lp(arr, pinned)
        if gstar is None:
            raise Inconclusive("LP failed")
        scale = max(1.0, np.abs(arr.ER).max())
        # the implementation solves its evaluation equations through the Gram matrix (squared condition number):
        # gains of 1e-5 where the optimum is 0 were observed in the thorough tier; 1e-4*scale keeps two orders of
        # margin to the smallest gain difference a generated MDP can have (rewards are multiples of 0.5)
        tol = 1e-4 * scale
        g = Rd.vec(res.state_gain, S)
        for i in range(len(S)):
            case.count("gain_entries_compared")
            case.check(abs(g[i] - gstar[i]) <= tol, "state_gain!=optimal-gain",
                       f"gain[{S[i]!r}]={g[i]!r} LP optimum={gstar[i]!r}", **facts)
        ig = float(res.initial_gain)
        case.check(abs(ig - sum(p * g[arr.si[s]] for s, p in sp.init)) <= 1e-9 * scale, "initial_gain!=E[state_gain]", repr(ig), **facts)
        # action gains: the expected gain of the successor
        GA = Rd.mat(res.action_gain, S, A)
        Tm, _ = Rf._masked(arr, pinned)
        Gref = np.einsum("san,n->sa", Tm, g)
        badg = [(i, j) for i in range(len(S)) for j in range(len(A))
                if arr.avail[i, j] and not pinned[i] and abs(GA[i, j] - Gref[i, j]) > tol]
        case.count("action_gain_entries_compared", int(arr.avail.sum()))
        case.check(not badg, "action_gain!=expected-gain-of-the-successor",
                   lambda: f"at {[(S[i], A[j], GA[i, j], Gref[i, j]) for i, j in badg[:2]]!r}", **facts)
        if ok_rows:
            gp = Gn.gain_of_policy(arr, PI, pinned)
            for i in range(len(S)):
                case.check(abs(gp[i] - gstar[i]) <= tol, "returned-policy-not-gain-optimal",
                           f"gain^pi[{S[i]!r}]={gp[i]!r} optimum={gstar[i]!r} row={PI[i].tolist()!r}", **facts)
