"""C11 — finite distributions obey the probability calculus.
Monitor: boundary recording of every operation on every distribution kind (incl. table-backed rows
and mixed-kind binary operations) + a sample monitor (every draw must have positive probability).
Oracle: the laws computed directly on plain {event: weight} dictionaries (math.fsum)."""
import math
import random as _random

import numpy as np

PROP = "C11"
CASES = {"quick": 2500, "thorough": 20000}
CASE_TIMEOUT = 30
REQUIRED = ["op:marginalize", "op:chain", "op:condition", "op:joint", "op:mixture", "op:and", "op:expectation",
            "op:softmax", "op:normalize", "samples_drawn", "seeded_sequences_compared", "kind:table",
            "kind:uniform", "kind:deterministic", "kind:softmax", "kind:dict"]
RULE = ("random finite distributions of kinds dict/uniform/deterministic/softmax/table-row over mixed hashable "
        "events (zero-probability entries first/middle/last, unnormalised dict weights) x every operation of the "
        "statement, with mixed-kind operands, merging projections, kernels returning different kinds, "
        "likelihoods with zeros; 200-2000 seeded draws per distribution. distinct = (kinds, sizes, op set) "
        "signature; non-trivial = some operand has >=2 positive-probability events.")
ASSUMPTIONS = ["reference arithmetic in float64 with math.fsum; comparisons to 1e-12 relative",
               "'&' and condition are only exercised where the common support / conditioning event has positive mass"]

EVENTS = [0, 1, 2, 3, -1, 7, "a", "b", "c", "x y", (0, 1), (1, 0), ("a", 1), (), None, frozenset([1]),
          frozenset(), 2.5]


def _close(a, b, tol=1e-12):
    return abs(a - b) <= tol * max(1.0, abs(a), abs(b))


def gen_dist(rng, case, events=None, kind=None, normalised=True, allow_zero=True):
    """returns (msdm distribution, reference {event: weight}, kind)"""
    from msdm.core.distributions import DictDistribution, UniformDistribution, DeterministicDistribution, \
        SoftmaxDistribution
    from msdm.core.table import ProbabilityTable, TableIndex
    requested = kind
    kind = kind or rng.choice(["dict", "dict", "uniform", "deterministic", "softmax", "table"])
    pool = events or EVENTS
    n = rng.randint(1, min(5, len(pool)))
    ev = rng.sample(pool, n)
    case.count(f"kind:{kind}")
    if kind == "deterministic":
        return DeterministicDistribution(ev[0]), {ev[0]: 1.0}, kind
    if kind == "uniform":
        return UniformDistribution(list(ev)), {e: 1.0 / n for e in ev}, kind
    if kind == "softmax":
        scores = {e: rng.choice([-3.0, -1.0, 0.0, 0.5, 2.0, 10.0, -20.0]) for e in ev}
        m = max(scores.values())
        z = math.fsum(math.exp(s - m) for s in scores.values())
        return SoftmaxDistribution(scores), {e: math.exp(s - m) / z for e, s in scores.items()}, kind
    # weights
    w = [rng.choice([1, 1, 2, 3, 5]) for _ in ev]
    if allow_zero and n >= 2 and rng.random() < 0.4:
        for pos in rng.sample(range(n), rng.randint(1, n - 1)):
            w[pos] = 0
    tot = sum(w)
    if normalised or kind == "table":
        w = [x / tot for x in w]
    else:
        w = [float(x) * rng.choice([0.5, 1.0, 2.0]) for x in w]
    ref = dict(zip(ev, w))
    if kind == "dict":
        r_ = rng.random()
        if r_ < 0.25:
            # the other documented constructors: pairs (an event may be listed several times, masses add up) ...
            pairs = []
            for e, x in zip(ev, w):
                if rng.random() < 0.4:
                    pairs += [(e, x / 2), (e, x / 2)]
                else:
                    pairs.append((e, x))
            rng.shuffle(pairs)
            case.count("dict_distributions_built_from_pairs")
            return DictDistribution.from_pairs(pairs), ref, kind
        if requested is None and r_ < 0.35 and len(set(w)) == 1 and w[0] > 0:
            return DictDistribution.uniform(list(ev)), {e: 1.0 / n for e in ev}, "uniform"      # ... and the class-method spellings
        if requested is None and r_ < 0.4 and n == 1 and w[0] == 1.0:
            return DictDistribution.deterministic(ev[0]), {ev[0]: 1.0}, "deterministic"
        return DictDistribution(dict(zip(ev, w))), ref, kind
    # table-backed: row of a 2-field ProbabilityTable
    rows = rng.randint(1, 3)
    rowkeys = rng.sample(["r0", "r1", "r2", 10, 11], rows)
    data = np.zeros((rows, n))
    pick = rng.randrange(rows)
    for r in range(rows):
        if r == pick:
            data[r] = w
        else:
            ww = np.array([rng.choice([1, 2, 3]) for _ in ev], dtype=float)
            data[r] = ww / ww.sum()
    tbl = ProbabilityTable(data=data, table_index=TableIndex(field_names=("row", "event"),
                                                           field_domains=(tuple(rowkeys), tuple(ev))))
    if n >= 3 and rng.random() < 0.4:
        # the same row selected with its events in another order (a sub-table indexed by a list of inner keys):
        # labels and numbers must move together
        perm = list(ev)
        if rng.random() < 0.5:
            mid = perm[1:-1]
            rng.shuffle(mid)
            perm = [perm[0]] + mid + [perm[-1]]          # first and last stay in place
        else:
            rng.shuffle(perm)
        case.count("table_rows_selected_in_another_event_order")
        return tbl[rowkeys[pick], perm], ref, kind
    return tbl[rowkeys[pick]], ref, kind


def as_dict(d):
    out = {}
    for e, p in d.items():
        out[e] = out.get(e, 0.0) + float(p)
    return out


def same(case, got, ref, clause, detail="", tol=1e-12, **facts):
    g = as_dict(got) if not isinstance(got, dict) else got
    keys = set(g) | set(ref)
    bad = [(e, g.get(e, 0.0), ref.get(e, 0.0)) for e in keys if not _close(g.get(e, 0.0), ref.get(e, 0.0), tol)]
    # also through prob()
    if not isinstance(got, dict):
        for e in ref:
            if not _close(float(got.prob(e)), ref[e], tol):
                bad.append((e, float(got.prob(e)), ref[e]))
    return case.check(not bad, clause, lambda: f"{detail} mismatches (event, got, want): {bad[:4]!r}", **facts)


def run_case(case, rng):
    from msdm.core.distributions import DictDistribution, UniformDistribution, DeterministicDistribution, \
        SoftmaxDistribution
    thorough = case.tier == "thorough"
    d1, r1, k1 = gen_dist(rng, case)
    d2, r2, k2 = gen_dist(rng, case)
    case.family = f"{k1}+{k2}"
    case.nontrivial = sum(p > 0 for p in r1.values()) >= 2 or sum(p > 0 for p in r2.values()) >= 2
    ops = []
    facts = dict(kind1=k1, kind2=k2)
    case.sample = dict(d1={repr(e): p for e, p in r1.items()}, kind1=k1, d2={repr(e): p for e, p in r2.items()},
                       kind2=k2)

    # ---- basic views ---------------------------------------------------------------------------
    same(case, d1, r1, "items/prob-differ-from-definition", **facts)
    case.check(float(d1.prob("__foreign__")) == 0.0, "foreign-event-has-probability", "")
    case.check(set(d1.support) == set(r1), "support-differs", f"{list(d1.support)!r}")

    # ---- a copy (copy.copy / copy.deepcopy / pickle round trip / .copy() where offered) describes the same measure ------
    if rng.random() < 0.5:
        import copy as _copy
        import pickle as _pickle
        how = rng.choice(["copy.copy", "copy.deepcopy", "pickle"])
        cp = case.call(how, {"copy.copy": _copy.copy, "copy.deepcopy": _copy.deepcopy,
                             "pickle": lambda d_: _pickle.loads(_pickle.dumps(d_))}[how], d1, facts=facts)
        case.count("copies_compared")
        if cp is not case.FAIL and hasattr(cp, "items"):
            same(case, dict(as_dict(cp)), r1, "copy:describes-a-different-measure", detail=how, **facts)
            if hasattr(cp, "sample"):
                sd_ = rng.randrange(10 ** 6)
                a_ = [d1.sample(rng=_random.Random(sd_)) for _ in range(5)]
                b_ = case.call("sample(copy)", lambda: [cp.sample(rng=_random.Random(sd_)) for _ in range(5)], facts=facts)
                if b_ is not case.FAIL:
                    case.check(a_ == b_, "copy:samples-differ-from-the-original's-under-an-equal-seed", lambda: f"{how}: {a_!r} vs {b_!r}")
            same(case, d1, r1, "copy:copying-changed-the-original", detail=how, **facts)

    # ---- marginalize ----------------------------------------------------------------------------
    buckets = rng.randint(1, 3)
    if rng.random() < 0.5:
        proj_map = {e: ("bucket", rng.randrange(buckets)) for e in r1}
    else:
        # images whose hashes collide in CPython (hash(-1) == hash(-2)) and that several events share
        imgs = rng.sample([-1, -2, (-1,), (-2,), (-1, -2), (-2, -1), 0, "x"], rng.randint(2, 4))
        proj_map = {e: rng.choice(imgs) for e in r1}
    m = case.call("marginalize", d1.marginalize, lambda e: proj_map[e], facts=facts)
    case.count("op:marginalize")
    if m is not case.FAIL:
        ref = {}
        for e, p in r1.items():
            ref[proj_map[e]] = ref.get(proj_map[e], 0.0) + p
        same(case, m, ref, "marginalize:merged-probabilities-wrong", **facts)
        case.check(_close(math.fsum(as_dict(m).values()), math.fsum(r1.values())), "marginalize:mass-not-preserved", "")
    ops.append("marginalize")

    # ---- chain (law of total probability), kernels of different kinds -------------------------------
    kernels = {}
    kref = {}
    for e in r1:
        kd, kr, _ = gen_dist(rng, case, events=["u", "v", "w", 0, (1, 2)])
        kernels[e], kref[e] = kd, kr
    c = case.call("chain", d1.chain, lambda e: kernels[e], facts=facts)
    case.count("op:chain")
    if c is not case.FAIL:
        ref = {}
        for e, p in r1.items():
            for y, q in kref[e].items():
                ref[y] = ref.get(y, 0.0) + p * q
        same(case, c, ref, "chain:not-law-of-total-probability", **facts)

    # ---- condition (Bayes) ------------------------------------------------------------------------
    from fractions import Fraction
    like = {e: rng.choice([0, 0, 1, 0.2, 0.5, True, False, 2, 3, Fraction(1, 3), np.int64(2), np.float64(0.25)])
            for e in r1}       # a likelihood is a non-negative number of any numeric type
    mass = math.fsum(p * float(like[e]) for e, p in r1.items())
    if mass > 0:
        post = case.call("condition", d1.condition, lambda e: like[e], facts=facts)
        case.count("op:condition")
        if post is not case.FAIL:
            ref = {e: p * float(like[e]) / mass for e, p in r1.items() if float(like[e]) > 0 and p * float(like[e]) >= 0}
            g = as_dict(post)
            same(case, {e: p for e, p in g.items() if p > 0}, {e: p for e, p in ref.items() if p > 0},
                 "condition:not-bayes-posterior", **facts)
            case.check(_close(math.fsum(g.values()), 1.0), "condition:not-normalised", repr(g))

    # ---- joint ------------------------------------------------------------------------------------
    j = case.call("joint", d1.joint, d2, facts=facts)
    case.count("op:joint")
    if j is not case.FAIL:
        same(case, j, {(a, b): pa * pb for a, pa in r1.items() for b, pb in r2.items()},
             "joint:not-product-measure", **facts)

    # ---- scaled mixture -----------------------------------------------------------------------------
    w1, w2 = rng.choice([0.0, 0.25, 0.5, 1.0, 2.0]), rng.choice([0.25, 0.5, 0.75, 1.0])
    mix = case.call("mixture", lambda: (d1 * w1) | (w2 * d2), facts=facts)
    case.count("op:mixture")
    if mix is not case.FAIL:
        ref = {}
        for e, p in r1.items():
            ref[e] = ref.get(e, 0.0) + w1 * p
        for e, p in r2.items():
            ref[e] = ref.get(e, 0.0) + w2 * p
        same(case, mix, ref, "mixture:weights-do-not-add-pointwise", **facts)

    # ---- conjunction ----------------------------------------------------------------------------------
    d3, r3, k3 = gen_dist(rng, case, events=list(dict.fromkeys(list(r1) + rng.sample(EVENTS, 2))))
    common = math.fsum(r1[e] * r3[e] for e in r1 if e in r3)
    if common > 0:
        conj = case.call("and", lambda: d1 & d3, facts=dict(kind1=k1, kind2=k3))
        case.count("op:and")
        if conj is not case.FAIL:
            ref = {e: r1[e] * r3[e] / common for e in r1 if e in r3}
            same(case, conj, ref, "and:not-renormalised-pointwise-product", tol=1e-10, kind1=k1, kind2=k3)

    # ---- expectation ------------------------------------------------------------------------------
    f = {e: rng.choice([-2.0, 0.0, 1.0, 3.5, 10.0]) for e in r1}
    ex = case.call("expectation", d1.expectation, lambda e: f[e], facts=facts)
    case.count("op:expectation")
    if ex is not case.FAIL:
        case.check(_close(float(ex), math.fsum(p * f[e] for e, p in r1.items())), "expectation:wrong",
                   lambda: f"{ex!r}", **facts)

    # ---- normalize (unnormalised input) -----------------------------------------------------------------
    du, ru, _ = gen_dist(rng, case, kind="dict", normalised=False)
    tot = math.fsum(ru.values())
    nz = case.call("normalize", du.normalize)
    case.count("op:normalize")
    if nz is not case.FAIL:
        same(case, nz, {e: p / tot for e, p in ru.items()}, "normalize:not-divided-by-total")
        # ... and the result is USED: an event of weight 0 has probability 0/total = exactly 0 (it stays impossible under any
        # later conditioning and is never sampled), and no entry is negative
        z_bad = [(e, nz.prob(e)) for e, p in ru.items() if p == 0 and nz.prob(e) != 0]
        n_bad = [(e, nz.prob(e)) for e in ru if nz.prob(e) < 0]
        case.count("normalised_zero_entries_checked", sum(1 for p in ru.values() if p == 0))
        case.check(not z_bad and not n_bad, "normalize:zero-weight-event-gets-non-zero-probability", lambda: f"{(z_bad + n_bad)[:3]!r}")
        # the same with arbitrary float weights (sums of quotients that are not exactly 1) and the zero-weight event listed last
        for _ in range(3):
            wf = {("w", i): rng.random() * rng.choice([1.0, 7.0, 1e-3]) for i in range(rng.randint(2, 6))}
            wf["never"] = 0.0
            nzf = case.call("normalize(float weights)", DictDistribution(wf).normalize)
            case.count("normalised_zero_entries_checked")
            if nzf is not case.FAIL:
                case.check(nzf.prob("never") == 0 and all(nzf.prob(e) >= 0 for e in wf), "normalize:zero-weight-event-gets-non-zero-probability",
                           lambda: f"weights {wf!r}: P(never) = {nzf.prob('never')!r}")
        zero_ev = [e for e, p in ru.items() if p == 0]
        if zero_ev and len(ru) >= 2:
            lk = {e: (1.0 if e in zero_ev else 0.0) for e in ru}
            lk[next(e for e in ru if ru[e] > 0)] = 1e-3
            cnd = case.call("normalize().condition", lambda: nz.condition(lambda e: lk[e]))
            if cnd is not case.FAIL:
                bad_c = [(e, cnd.prob(e)) for e in zero_ev if cnd.prob(e) != 0]
                case.check(not bad_c, "condition:impossible-event-gets-posterior-mass", lambda: f"after normalize(): {bad_c[:3]!r}")
    # ... also when the total is within 1e-5 of 1 but not 1: normalising still divides by the total
    dn, rn, _ = gen_dist(rng, case, kind="dict", normalised=True)
    fac = 1.0 + rng.choice([4e-6, -8e-6, 1e-7, 9e-6])
    rn2 = {e: p * fac for e, p in rn.items()}
    tot2 = math.fsum(rn2.values())
    if tot2 > 0:
        nz2 = case.call("normalize(total within 1e-5 of 1)", DictDistribution(rn2).normalize)
        case.count("near_one_totals_normalised")
        if nz2 is not case.FAIL:
            g2 = as_dict(nz2)
            case.check(all(abs(g2.get(e, 0.0) - p / tot2) <= 1e-12 for e, p in rn2.items()) and abs(math.fsum(g2.values()) - 1.0) <= 1e-12,
                       "normalize:not-divided-by-total", lambda: f"total {tot2!r}: got mass {math.fsum(g2.values())!r}", near_one_total=True)
    # marginalize / mixture on unnormalised weights keep the mass
    mu = case.call("marginalize(unnormalised)", du.marginalize, lambda e: 0)
    if mu is not case.FAIL:
        same(case, mu, {0: tot}, "marginalize:mass-not-preserved(unnormalised)")

    # chain / expectation / joint on unnormalised priors, in particular ONE-event priors whose mass is not 1
    one_e = rng.choice(EVENTS)
    one_m = rng.choice([0.4, 0.25, 2.0, 0.0])
    d_one = DictDistribution({one_e: one_m}) if rng.random() < 0.7 else one_m * DeterministicDistribution(one_e)
    for nm, dd, rr in (("unnormalised", du, ru), ("one-event", d_one, {one_e: one_m})):
        kd, kr, _ = gen_dist(rng, case, events=["u", "v", "w", 0, (1, 2)])
        cc = case.call(f"chain({nm} prior)", dd.chain, lambda e: kd, facts=dict(prior=nm))
        case.count("unnormalised_prior_ops")
        if cc is not case.FAIL:
            tt = math.fsum(rr.values())
            same(case, {e: p for e, p in as_dict(cc).items() if p != 0}, {y: tt * q for y, q in kr.items() if tt * q != 0},
                 "chain:not-law-of-total-probability", f"{nm} prior {rr!r}", prior=nm)
        ee = case.call(f"expectation({nm} prior)", dd.expectation, lambda e: 3.0, facts=dict(prior=nm))
        if ee is not case.FAIL:
            case.check(_close(float(ee), 3.0 * math.fsum(rr.values())), "expectation:wrong", f"{nm} prior {rr!r}: {ee!r}", prior=nm)
        jj = case.call(f"joint({nm} prior)", dd.joint, d2, facts=dict(prior=nm))
        if jj is not case.FAIL:
            same(case, {e: p for e, p in as_dict(jj).items() if p != 0},
                 {(a, b): p * q for a, p in rr.items() for b, q in r2.items() if p * q != 0}, "joint:not-product-measure",
                 f"{nm} prior", prior=nm)
        mm = case.call(f"marginalize({nm} prior)", dd.marginalize, lambda e: "all", facts=dict(prior=nm))
        if mm is not case.FAIL:
            case.check(_close(float(as_dict(mm).get("all", 0.0)), math.fsum(rr.values())), "marginalize:mass-not-preserved(unnormalised)",
                       f"{nm} prior {rr!r}: {as_dict(mm)!r}", prior=nm)

    # ---- softmax ----------------------------------------------------------------------------------------
    ev = rng.sample(EVENTS, rng.randint(1, 5))
    scores = {e: rng.uniform(-5, 5) for e in ev}
    shift = rng.choice([0.0, 1.0, -700.0, 700.0, 123.456, 1e4])
    sm1 = case.call("softmax", SoftmaxDistribution, scores)
    sm2 = case.call("softmax(shifted)", SoftmaxDistribution, {e: s + shift for e, s in scores.items()})
    case.count("op:softmax")
    if sm1 is not case.FAIL and sm2 is not case.FAIL:
        mx = max(scores.values())
        z = math.fsum(math.exp(s - mx) for s in scores.values())
        same(case, sm1, {e: math.exp(s - mx) / z for e, s in scores.items()}, "softmax:wrong")
        case.check(_close(math.fsum(as_dict(sm1).values()), 1.0), "softmax:not-normalised", "")
        tol = 1e-10 if abs(shift) < 1e3 else 1e-7
        same(case, sm2, as_dict(sm1), "softmax:not-shift-invariant", f"shift={shift}", tol=tol)

    # ---- sampling ---------------------------------------------------------------------------------------
    ndraw = 1000 if thorough else 250
    for d, r, k in ((d1, r1, k1), (d2, r2, k2), (d3, r3, k3)):
        seed = rng.randrange(2 ** 32)
        ra, rb = _random.Random(seed), _random.Random(seed)
        seq_a = case.call("sample", lambda: [d.sample(rng=ra) for _ in range(ndraw)], facts=dict(kind=k))
        if seq_a is case.FAIL:
            continue
        seq_b = [d.sample(rng=rb) for _ in range(ndraw)]
        case.count("samples_drawn", 2 * ndraw)
        case.count("seeded_sequences_compared")
        case.check(seq_a == seq_b, "sample:equal-seeds-give-different-sequences", "", kind=k)
        bad = [e for e in set(seq_a) if not r.get(e, 0.0) > 0]
        case.check(not bad, "sample:zero-probability-event-sampled", lambda: f"{bad!r} from {r!r}", kind=k)
        pos = [e for e, p in r.items() if p > 0]
        if len(r) == 1:
            case.check(set(seq_a) == set(r), "sample:one-point-distribution-returns-other-event", "", kind=k)
        if len(pos) >= 2 and ndraw >= 250:
            # every positive event with p >= 0.1 shows up in 250+ draws (miss probability < 4e-12)
            missing = [e for e in pos if r[e] / math.fsum(r.values()) >= 0.1 and e not in set(seq_a)]
            case.check(not missing, "sample:likely-event-never-sampled", lambda: f"{missing!r} from {r!r}", kind=k)
        if k == "dict" and len(r) >= 2 and len(pos) >= 1:
            # a dict distribution updated IN PLACE (same keys) and sampled again: never an event that now has probability 0
            keep = rng.choice(pos)
            newr = {e: (1.0 if e == keep else 0.0) for e in r}
            for e, p_ in newr.items():
                d[e] = p_
            again = case.call("sample(after in-place update)", lambda: [d.sample(rng=ra) for _ in range(60)], facts=dict(kind=k))
            case.count("samples_after_inplace_update", 60)
            if again is not case.FAIL:
                case.check(set(again) == {keep}, "sample:stale-weights-after-in-place-update",
                           lambda: f"after setting all mass on {keep!r}: drew {set(again)!r}", kind=k)
            for e, p_ in r.items():
                d[e] = p_
        if k in ("dict", "softmax", "table") and len(r) >= 2:
            # rng left out: the documented default is the global `random` module, so random.seed() governs the draws and
            # sample() is the same as sample(rng=random)
            st_ = _random.getstate()
            _random.seed(seed)
            dflt_a = case.call("sample()", lambda: [d.sample() for _ in range(8)], facts=dict(kind=k))
            _random.seed(seed)
            dflt_b = case.call("sample(rng=random)", lambda: [d.sample(rng=_random) for _ in range(8)], facts=dict(kind=k))
            _random.setstate(st_)
            case.count("default_generator_draws_compared")
            if dflt_a is not case.FAIL and dflt_b is not case.FAIL:
                case.check(dflt_a == dflt_b, "sample:default-generator-is-not-the-global-random-module",
                           lambda: f"after random.seed({seed}): sample() gave {dflt_a!r}, sample(rng=random) gave {dflt_b!r}", kind=k)
            g_before = _random.getstate()
            multi = case.call("sample(k)", lambda: d.sample(rng=_random.Random(seed), k=5), facts=dict(kind=k))
            multi2 = case.call("sample(k)", lambda: d.sample(rng=_random.Random(seed), k=5), facts=dict(kind=k))
            case.count("batch_samples_compared")
            if multi is not case.FAIL:
                case.check(len(multi) == 5 and all(r.get(e, 0.0) > 0 for e in multi), "sample(k):invalid", repr(multi))
            if multi is not case.FAIL and multi2 is not case.FAIL:
                case.check(list(multi) == list(multi2), "sample:equal-seeds-give-different-sequences",
                           lambda: f"k=5 batch: {multi!r} vs {multi2!r}", kind=k, batch=True)
                case.check(_random.getstate() == g_before, "sample(k):global-generator-used-although-one-was-passed", "", kind=k)
    case.sig(k1, k2, k3, len(r1), len(r2), sum(p == 0 for p in r1.values()), buckets, w1, w2, mass > 0, common > 0)



def parent_phase(tier, seed, jobs, tmp, envf):
    """thorough tier: the repository's own test-suite under the ambient 'sample' monitor"""
    if tier != "thorough":
        return [], None
    from mon.probe.ambient import run_ambient
    rec = run_ambient({"sample"}, tmp, envf)
    rec["prop"] = PROP
    return [rec], {"ambient_test_suite": rec["sample"]}
