"""C18 — grid-game transitions are normalised and respect the physical constraints; factor tables
multiply as the normalised natural join and mix by adding weights.
Monitor: boundary recording of next_state_dist / joint_rewards / is_terminal over ALL explored
non-terminal states x ALL 25 joint actions of each generated layout; boundary of DiscreteFactorTable
&, |, *, marginalize, probs. Oracle: physical constraints computed from the generated layout; reference
natural join on flattened nested rows."""
import itertools
import math
import numpy as np

PROP = "C18"
CASES = {"quick": 260, "thorough": 12000}
CASE_TIMEOUT = 240
SHARD_TIMEOUT = {"quick": 900, "thorough": 7200}
REQUIRED = ["layouts", "state_action_pairs", "successors_checked", "own_goal_states", "terminal_checks",
            "table_products", "table_mixtures", "table_probs_checked", "independent_products"]
RULE = ("random grid-game layouts (interior up to 4x4, two agents, obstacles, one-directional walls in each "
        "direction, fences with success probability in {0,.3,.5,1}, private and shared goals, adjacent agents, "
        "corridors) with ALL explored non-terminal states x ALL 25 joint actions (state exploration capped per "
        "case in quick); random pairs of factor tables over nested-dict rows with shared / disjoint / partially "
        "overlapping variables, zero rows given as probs=0 and logits=-inf, scalar multiples incl. 0. distinct = "
        "layout string / table shapes; non-trivial = layout with >=2 free cells per agent or tables with >=2 rows.")
ASSUMPTIONS = ["coordinates: x = column, y = height-1-row (checked against the initial state)",
               "a wall blocks leaving its cell in its direction only; fences are not judged beyond normalisation",
               "agents may share a cell only if it holds a goal"]

ACTIONS = [{'x': 0, 'y': 0}, {'x': 1, 'y': 0}, {'x': -1, 'y': 0}, {'x': 0, 'y': 1}, {'x': 0, 'y': -1}]
WALLS = {'[': (-1, 0), ']': (1, 0), '^': (0, 1), '_': (0, -1)}
FENCES = {'{': (-1, 0), '}': (1, 0), '~': (0, 1), 'u': (0, -1)}
GOALS = {"G0": ("A0",), "G1": ("A1",), "G": ("A0", "A1")}


def gen_layout(rng, big):
    w = rng.randint(1, 4 if big else 3)
    h = rng.randint(1, 4 if big else 3)
    if w * h < 2:
        w = 2
    cells = [[[] for _ in range(w)] for _ in range(h)]
    pos = [(r, c) for r in range(h) for c in range(w)]
    a0, a1 = rng.sample(pos, 2)
    parked = rng.random() < 0.25
    if parked or rng.random() < 0.4:          # adjacent agents on purpose
        r, c = a0
        nb = [(r + dr, c + dc) for dr, dc in ((0, 1), (1, 0), (0, -1), (-1, 0)) if 0 <= r + dr < h and 0 <= c + dc < w]
        if nb:
            a1 = rng.choice(nb)
    cells[a0[0]][a0[1]].append("A0")
    cells[a1[0]][a1[1]].append("A1")
    if parked:
        # an agent PARKED on the other agent's private goal (it does not own it, so the game goes on): goal cells get
        # special treatment in the collision rules, the physical constraints hold there all the same
        if rng.random() < 0.5:
            who, cell = rng.choice([("G0", a1), ("G1", a0)])
            cells[cell[0]][cell[1]].append(who)
        else:                                  # both parked on each other's goal
            cells[a1[0]][a1[1]].append("G0")
            cells[a0[0]][a0[1]].append("G1")
    free = [p for p in pos if p not in (a0, a1)]
    for p in free:
        if rng.random() < 0.15:
            cells[p[0]][p[1]].append("#")
    for p in pos:
        if "#" in cells[p[0]][p[1]]:
            continue
        if rng.random() < 0.2:
            cells[p[0]][p[1]].append(rng.choice(list(GOALS)))
        if rng.random() < 0.2:
            cells[p[0]][p[1]].append(rng.choice(list(WALLS)))
        if rng.random() < 0.15:
            cells[p[0]][p[1]].append(rng.choice(list(FENCES)))
    s = "\n".join(" ".join(".".join(c) if c else "." for c in row) for row in cells)
    return s, cells, w, h


def run_case(case, rng):
    if rng.random() < 0.55:
        _layout_case(case, rng)
    else:
        _table_case(case, rng)


def _layout_case(case, rng):
    from msdm.domains.gridgame.tabulargridgame import TabularGridGame
    big = case.tier == "thorough" or rng.random() < 0.25
    s, cells, w, h = gen_layout(rng, big)
    fprob = rng.choice([0, 0.3, 0.5, 1])
    cprob = rng.choice([None, None, 0.5])      # the documented alternative to the default collision handling
    case.family = "layout"
    case.params = dict(layout=s, fence_success_prob=fprob, collision_prob=cprob, w=w, h=h)
    case.count("layouts")
    for k in ("table_products", "table_mixtures", "table_probs_checked", "independent_products"):
        case.count(k, 0)
    from mon import defaults as Dflt
    gkw, _om = Dflt.rely_on_defaults(case, rng, "TabularGridGame", dict(fence_success_prob=fprob, collision_prob=cprob))
    gg = case.call("TabularGridGame", TabularGridGame, s, **gkw)
    if gg is not case.FAIL:
        Dflt.in_force(case, "TabularGridGame", gg, passed=gkw)
    if gg is case.FAIL:
        return
    # layout facts in msdm's coordinates
    obstacles, goals, walls = set(), {}, set()
    start = {}
    for r in range(h):
        for c in range(w):
            x, y = c, h - 1 - r
            for sym in cells[r][c]:
                if sym == "#":
                    obstacles.add((x, y))
                elif sym in GOALS:
                    goals.setdefault((x, y), set()).update(GOALS[sym])
                elif sym in WALLS:
                    dx, dy = WALLS[sym]
                    walls.add(((x, y), (x + dx, y + dy)))
                elif sym in ("A0", "A1"):
                    start[sym] = (x, y)
    s0s = case.call("initial_state_dist", lambda: list(gg.initial_state_dist().support))
    if s0s is case.FAIL:
        return
    s0 = s0s[0]
    ok0 = len(s0s) == 1 and all((s0[a]['x'], s0[a]['y']) == start[a] for a in ("A0", "A1"))
    if not case.check(ok0, "initial-state-positions-differ-from-layout", f"{s0!r} vs {start!r}"):
        return
    # a SECOND game alive (same size, agents and goals; no obstacles, walls or fences), asked about every state / joint action
    # just before the judged game is
    other_game = None
    if rng.random() < 0.35:
        plain = "\n".join(" ".join(".".join(sym for sym in c_ if sym in ("A0", "A1") or sym in GOALS) or "." for c_ in row_) for row_ in cells)
        try:
            other_game = TabularGridGame(plain)
            case.count("games_alive_side_by_side")
        except BaseException as e_:
            if type(e_).__name__ == "CaseTimeout" or isinstance(e_, (KeyboardInterrupt, SystemExit)):
                raise
    limit = 10 ** 9 if case.tier == "thorough" else 60
    seen = {}
    key = lambda st: (st["A0"]["x"], st["A0"]["y"], st["A1"]["x"], st["A1"]["y"])
    frontier = [s0]
    seen[key(s0)] = s0
    npairs = 0
    facts = dict(fence_success_prob=fprob)
    TERMINAL = None
    while frontier and len(seen) <= limit:
        st = frontier.pop(0)
        p0 = (st["A0"]["x"], st["A0"]["y"])
        p1 = (st["A1"]["x"], st["A1"]["y"])
        own_goal = ("A0" in goals.get(p0, ())) or ("A1" in goals.get(p1, ()))
        if own_goal:
            case.count("own_goal_states")
        for ja0, ja1 in itertools.product(ACTIONS, ACTIONS):
            ja = {"A0": dict(ja0), "A1": dict(ja1)}
            if other_game is not None:
                try:
                    other_game.next_state_dist(st, ja)
                except BaseException as e_:
                    if type(e_).__name__ == "CaseTimeout" or isinstance(e_, (KeyboardInterrupt, SystemExit)):
                        raise
            d = case.call("next_state_dist", gg.next_state_dist, st, ja, facts=facts)
            npairs += 1
            case.count("state_action_pairs")
            if d is case.FAIL:
                continue
            items = [(ns, d.prob(ns)) for ns in d.support]
            tot = math.fsum(p for _, p in items)
            case.check(abs(tot - 1.0) <= 1e-9 and all(p >= 0 for _, p in items), "transition-not-normalised",
                       lambda: f"state {key(st)} ja {ja!r}: total {tot!r}", **facts)
            for ns, p in items:
                if not p > 0:
                    continue
                case.count("successors_checked")
                if gg.is_terminal(ns):
                    TERMINAL = ns
                    case.check(own_goal, "terminal-state-reached-from-state-without-agent-on-own-goal",
                               f"state {key(st)} ja {ja!r}", **facts)
                    continue
                if own_goal:
                    case.fail("agent-on-own-goal-does-not-lead-to-terminal-state", f"state {key(st)} -> {ns!r} p={p}", **facts)
                    continue
                n0 = (ns["A0"]["x"], ns["A0"]["y"])
                n1 = (ns["A1"]["x"], ns["A1"]["y"])
                where = lambda: f"state {key(st)} ja ({ja0},{ja1}) -> {n0},{n1} p={p!r} layout=\n{s}"
                for old, new, name in ((p0, n0, "A0"), (p1, n1, "A1")):
                    case.check(0 <= new[0] < w and 0 <= new[1] < h, "agent-off-grid", where, **facts)
                    case.check(new not in obstacles, "agent-inside-obstacle", where, **facts)
                    case.check(abs(new[0] - old[0]) + abs(new[1] - old[1]) <= 1, "agent-moved-more-than-one-cell", where, **facts)
                    case.check((old, new) not in walls, "agent-moved-through-wall", where, **facts)
                case.check(not (n0 == n1 and n0 not in goals), "two-agents-share-a-non-goal-cell", where, **facts)
                case.check(not (n0 == p1 and n1 == p0 and p0 != p1), "agents-swapped-cells", where, **facts)
                k = key(ns)
                if k not in seen:
                    seen[k] = ns
                    frontier.append(ns)
            if own_goal:
                case.check(len([1 for ns, p in items if p > 0]) == 1, "own-goal-state-has-several-successors", "", **facts)
    # terminal state: absorbing, pays nothing
    if TERMINAL is not None:
        ja = {"A0": dict(ACTIONS[1]), "A1": dict(ACTIONS[3])}
        d = case.call("next_state_dist(terminal)", gg.next_state_dist, TERMINAL, ja)
        case.count("terminal_checks")
        if d is not case.FAIL:
            items = [(ns, d.prob(ns)) for ns in d.support if d.prob(ns) > 0]
            case.check(len(items) == 1 and gg.is_terminal(items[0][0]) and abs(items[0][1] - 1) < 1e-12,
                       "terminal-state-not-absorbing", repr(items))
        r = case.call("joint_rewards(terminal)", gg.joint_rewards, TERMINAL, ja, TERMINAL)
        if r is not case.FAIL:
            case.check(all(v == 0 for v in r.values()), "terminal-state-pays-reward", repr(r))
        r2 = case.call("joint_rewards(to-terminal)", gg.joint_rewards, s0, ja, TERMINAL)
        if r2 is not case.FAIL:
            case.check(all(v == 0 for v in r2.values()), "transition-into-terminal-pays-reward", repr(r2))
    else:
        case.count("terminal_checks", 0)
        case.count("own_goal_states", 0)
    if w * h <= 9 and rng.random() < 0.5:
        # downstream use: the states the game itself lists as reachable (state_list is what planners and array builders walk)
        # are states the rules allow - no two agents in one non-goal cell, nobody inside an obstacle or off the grid
        sl = case.call("state_list", lambda: list(gg.state_list))
        case.count("state_lists_checked")
        if sl is not case.FAIL:
            badl = []
            for st_ in sl:
                if gg.is_terminal(st_):
                    continue
                q0, q1 = (st_["A0"]["x"], st_["A0"]["y"]), (st_["A1"]["x"], st_["A1"]["y"])
                if (q0 == q1 and q0 not in goals) or q0 in obstacles or q1 in obstacles or not all(0 <= q[0] < w and 0 <= q[1] < h for q in (q0, q1)):
                    badl.append((q0, q1))
            case.check(not badl, "state-list-contains-a-state-the-rules-forbid", lambda: f"{badl[:3]!r} layout=\n{s}", **facts)
            if len(seen) <= limit and not frontier:
                extra_ = [key(st_) for st_ in sl if not gg.is_terminal(st_) and key(st_) not in seen]
                case.check(not extra_, "state-list-contains-states-not-reachable-with-positive-probability", lambda: f"{extra_[:3]!r} layout=\n{s}", **facts)
    if rng.random() < 0.3:
        # a game written by SUBCLASSING: the game is also over as soon as A0 stands on a flag cell (here: where it starts), said
        # through the public is_absorbing - the hook the class's own dynamics consult
        flag_xy = start["A0"]

        class CaptureTheFlag(TabularGridGame):
            def is_absorbing(self_, st_):
                return (st_["A0"]["x"], st_["A0"]["y"]) == flag_xy or TabularGridGame.is_absorbing(self_, st_)
        g2 = case.call("TabularGridGame subclass(is_absorbing overridden)", CaptureTheFlag, s, **gkw)
        if g2 is not case.FAIL:
            bad_ = []
            for ja0, ja1 in list(itertools.product(ACTIONS, ACTIONS))[:6]:
                ja = {"A0": dict(ja0), "A1": dict(ja1)}
                d = case.call("next_state_dist(subclass)", g2.next_state_dist, s0, ja, facts=facts)
                case.count("subclass_absorbing_overrides_checked")
                if d is case.FAIL:
                    continue
                items = [(ns, d.prob(ns)) for ns in d.support if d.prob(ns) > 0]
                if not (len(items) == 1 and g2.is_terminal(items[0][0])):
                    bad_.append((ja0, ja1, items[:2]))
            case.check(not bad_, "dynamics-ignore-the-game's-own-is_absorbing", lambda: f"{bad_[:1]!r} layout=\n{s}", **facts)
    freecells = w * h - len(obstacles)
    case.nontrivial = freecells >= 3 and npairs >= 50
    case.sig(s, fprob)
    case.sample = dict(layout=s.split("\n"), fence_success_prob=fprob, states_explored=len(seen), pairs=npairs)


# ---------------------------------------------------------------------------------------------
def flatten(row, prefix=()):
    out = {}
    for k, v in row.items():
        if isinstance(v, dict):
            out.update(flatten(v, prefix + (k,)))
        else:
            out[prefix + (k,)] = v
    return out


def nest(flat, rng=None):
    out = {}
    items = list(flat.items())
    if rng is not None:
        rng.shuffle(items)          # the same row, its keys inserted in another order
    for path, v in items:
        d = out
        for k in path[:-1]:
            d = d.setdefault(k, {})
        d[path[-1]] = v
    return out


def _table_case(case, rng):
    from msdm.core.distributions import DiscreteFactorTable as Pr
    case.family = "tables"
    for k in ("layouts", "state_action_pairs", "successors_checked", "own_goal_states", "terminal_checks"):
        case.count(k, 0)
    paths_pool = [("a", "x"), ("a", "y"), ("b",), ("c", "p"), ("c", "q"), ("d",)]
    mode = rng.choice(["shared", "disjoint", "partial", "same"])
    if mode == "same":
        pa = pb = rng.sample(paths_pool, rng.randint(1, 2))
    elif mode == "disjoint":
        sel = rng.sample(paths_pool, rng.randint(2, 4))
        k = rng.randint(1, len(sel) - 1)
        pa, pb = sel[:k], sel[k:]
    else:
        shared = rng.sample(paths_pool, rng.randint(1, 2))
        rest = [p for p in paths_pool if p not in shared]
        pa = shared + rng.sample(rest, rng.randint(0, 1))
        pb = shared + rng.sample([p for p in rest if p not in pa], rng.randint(0 if mode == "shared" else 1, 1))

    def rows_over(paths):
        vals = [0, 1, 2]
        allrows = [dict(zip(paths, combo)) for combo in itertools.product(vals[:rng.randint(1, 3)], repeat=len(paths))]
        rng.shuffle(allrows)
        return allrows[:rng.randint(1, min(4, len(allrows)))]

    deep_rows = []

    def mk(paths, rows_flat=None):
        rows_flat = rows_flat or rows_over(paths)
        w = [rng.choice([1, 1, 2, 3]) for _ in rows_flat]
        if len(rows_flat) >= 2 and rng.random() < 0.4:
            w[rng.randrange(len(w))] = 0
        tot = sum(w)
        probs = [x / tot for x in w]
        # product operands may write the same row with its keys in any order; mixture operands may not (mix()
        # asserts one key order per table: its own stated precondition)
        rows = [nest(r, rng if (mode != "same" and rng.random() < 0.5) else None) for r in rows_flat]
        if rng.random() < 0.3:
            # values written as floats / bools where the other table may say int: 1 == 1.0 == True is ONE assignment
            def retype(d_):
                return {k_: (retype(v_) if isinstance(v_, dict) else (float(v_) if rng.random() < 0.6 else (bool(v_) if v_ in (0, 1) else v_)))
                        for k_, v_ in d_.items()}
            rows = [retype(r_) for r_ in rows]
            case.count("tables_with_retyped_values")
        how = rng.choice(["probs", "logits"])
        if how == "probs":
            if rng.random() < 0.4:
                # weights handed over in a numpy buffer that the caller REUSES afterwards (overwritten right after the
                # table is built): the table must have taken its own copy
                buf = np.array(probs, dtype=float)
                t = Pr(rows, probs=buf)
                buf[:] = buf[::-1].copy() if len(buf) > 1 else 0.123
                buf += 0.5
                case.count("tables_built_from_reused_numpy_buffers")
            else:
                t = Pr(rows, probs=probs)
            raw = list(probs)
            lg = [math.log(x) if x > 0 else -np.inf for x in probs]
        else:
            lg = [math.log(x) if x > 0 else -np.inf for x in w]
            if mode != "same" and len(w) >= 2 and rng.random() < 0.3:
                # some rows sit ~200 orders of magnitude below the others (finite logits of about -460): their
                # probabilities are tiny but not zero, and the product of two such probabilities underflows although the
                # joined row's logit is finite
                deep = rng.sample(range(len(w)), rng.randint(1, len(w) - 1))
                lg = [(l - 460.0 if (i in deep and l > -np.inf) else l) for i, l in enumerate(lg)]
                deep_rows.append(True)
            t = Pr(rows, logits=lg)
            raw = [math.exp(l) if l > -np.inf else 0.0 for l in lg]          # the table's weights are exp(score), unnormalised
            mx = max(lg)
            zz = math.fsum(math.exp(l - mx) for l in lg if l > -np.inf) if mx > -np.inf else 0.0
            probs = [math.exp(l - mx) / zz if l > -np.inf else 0.0 for l in lg] if zz > 0 else probs
        return t, rows_flat, probs, how, raw, lg

    A, ra, wa, howa, rawa, lga = mk(pa)
    if mode == "same":
        same_rows = [dict(r) for r in ra] if rng.random() < 0.6 else None
        if same_rows is not None and rng.random() < 0.7:
            rng.shuffle(same_rows)          # the same rows, listed in another order
        B, rb, wb, howb, rawb, lgb = mk(pb, rows_flat=same_rows)
    else:
        B, rb, wb, howb, rawb, lgb = mk(pb)
    if mode != "same" and rng.random() < 0.4:
        # the rows that JOIN are the tiny ones in both tables (each table also has a heavy row that joins nothing): the
        # whole product then lives 400 orders of magnitude down, where only sums of logits are representable
        compat = lambda r1, r2: all(r1[p_] == r2[p_] for p_ in r1 if p_ in r2)
        ma = [any(compat(r1, r2) and l2 > -np.inf for r2, l2 in zip(rb, lgb)) for r1 in ra]
        mb = [any(compat(r1, r2) and l1 > -np.inf for r1, l1 in zip(ra, lga)) for r2 in rb]
        if any(ma) and not all(ma) and any(mb) and not all(mb):
            base_a = [math.log(x) if x > 0 else -np.inf for x in [float(v) for v in rawa]] if not deep_rows else lga
            lga = [(math.log(rng.choice([1, 2, 3])) - 460.0 if m_ else math.log(rng.choice([1, 2]))) for m_ in ma]
            lgb = [(math.log(rng.choice([1, 2, 3])) - 460.0 if m_ else math.log(rng.choice([1, 2]))) for m_ in mb]

            def soft(lg_):
                mx_ = max(lg_)
                z_ = math.fsum(math.exp(l_ - mx_) for l_ in lg_)
                return [math.exp(l_ - mx_) / z_ for l_ in lg_]
            A = Pr([nest(r) for r in ra], logits=lga)
            B = Pr([nest(r) for r in rb], logits=lgb)
            wa, wb = soft(lga), soft(lgb)
            rawa, rawb = [math.exp(l_) for l_ in lga], [math.exp(l_) for l_ in lgb]
            howa = howb = "logits"
            deep_rows.append(True)
            case.count("products_living_400_orders_of_magnitude_down")
    if deep_rows:
        case.count("tables_with_rows_200_orders_of_magnitude_down")
    facts = dict(mode=mode, how=(howa, howb))
    case.params = dict(mode=mode, rows=(len(ra), len(rb)), how=(howa, howb))
    case.nontrivial = len(ra) >= 2 or len(rb) >= 2
    case.sig(mode, tuple(sorted(pa)), tuple(sorted(pb)), len(ra), len(rb), howa, howb, tuple(wa), tuple(wb))
    case.sample = dict(A=[(r, p) for r, p in zip([nest(x) for x in ra], wa)], B=[(r, p) for r, p in zip([nest(x) for x in rb], wb)], mode=mode)

    def table_dict(t):
        out = {}
        for e, p in zip(t.support, t.probs):
            k = tuple(sorted(flatten(e).items()))
            out[k] = out.get(k, 0.0) + float(p)
        return out

    # probs of the inputs are normalised whenever some weight is positive
    for t, w_, nm in ((A, wa, "A"), (B, wb, "B")):
        case.count("table_probs_checked")
        got = [float(p) for p in t.probs]
        case.check(all(abs(g - x) <= 1e-12 for g, x in zip(got, w_)), "table-probs-not-normalised-weights",
                   f"{nm}: probs {got!r} want {w_!r}", **facts)
    # ---- product = normalised natural join -------------------------------------------------------------
    prod = case.call("product", lambda: A & B, facts=facts)
    case.count("table_products")
    if prod is not case.FAIL:
        # reference in the log domain (the product of two tiny probabilities may underflow, the sum of their logits not)
        refl = {}
        for r1, l1 in zip(ra, lga):
            for r2, l2 in zip(rb, lgb):
                if all(r1[p] == r2[p] for p in r1 if p in r2):
                    m = dict(r1)
                    m.update(r2)
                    k = tuple(sorted(m.items()))
                    if l1 > -np.inf and l2 > -np.inf:
                        refl.setdefault(k, []).append(l1 + l2)
        mxl = max([l for ls in refl.values() for l in ls], default=-np.inf)
        ref = {k: math.fsum(math.exp(l - mxl) for l in ls) for k, ls in refl.items()} if mxl > -np.inf else {}
        ref = {k: v for k, v in ref.items() if v > 0}
        tot = math.fsum(ref.values())
        got = {k: v for k, v in table_dict(prod).items() if v > 0}
        if tot > 0:
            ref = {k: v / tot for k, v in ref.items()}
            ok = set(got) == set(ref) and all(abs(got[k] - ref[k]) <= 1e-9 for k in ref)
            case.check(ok, "product!=normalised-natural-join", lambda: f"got {got!r} want {ref!r}", **facts)
        else:
            case.check(not got, "product-of-incompatible-tables-has-mass", repr(got), **facts)
        if mode == "disjoint" and tot > 0:
            case.count("independent_products")
            # product measure: marginals are the inputs
            for rows, w_, paths in ((ra, wa, pa), (rb, wb, pb)):
                marg = {}
                for k, v in got.items():
                    kk = tuple(sorted((p, x) for p, x in k if p in paths))
                    marg[kk] = marg.get(kk, 0.0) + v
                want = {tuple(sorted(r.items())): x for r, x in zip(rows, w_) if x > 0}
                case.check(set(marg) == set(want) and all(abs(marg[k] - want[k]) <= 1e-9 for k in want),
                           "independent-product-is-not-the-product-measure", lambda: f"{marg!r} vs {want!r}", **facts)
    # ---- a join that lives 400 orders of magnitude down: the rows that match are tiny in BOTH tables (finite logits of
    # about -460), each table's heavy row matches nothing. Only the ratios of the joined rows matter: the result is w_a*w_b
    if rng.random() < 0.35:
        kk = rng.randint(1, 3)
        va = [rng.choice([1, 2, 3, 7]) for _ in range(kk)]
        vb = [rng.choice([1, 2, 5]) for _ in range(kk)]
        extra = rng.random() < 0.5
        rows_a = [{"j": {"k": i}} for i in range(kk)] + [{"j": {"k": 90}}]
        rows_b = [({"j": {"k": i}, "z": i % 2} if extra else {"j": {"k": i}}) for i in range(kk)] + \
                 [({"j": {"k": 91}, "z": 0} if extra else {"j": {"k": 91}})]
        D = rng.choice([-460.0, -300.0, -700.0, -800.0, -1000.0, -5000.0])      # (exp(-745) is the smallest float: beyond it only the logits carry the row)
        tA = Pr(rows_a, logits=[math.log(v) + D for v in va] + [0.0])
        tB = Pr(rows_b, logits=[math.log(v) + D for v in vb] + [0.0])
        pj = case.call("product(deep join)", lambda: tA & tB, facts=dict(depth=D))
        case.count("deep_joins_checked")
        if pj is not case.FAIL:
            tot_ = float(sum(a_ * b_ for a_, b_ in zip(va, vb)))
            want = {i: va[i] * vb[i] / tot_ for i in range(kk)}
            got = {}
            for e, p_ in zip(pj.support, pj.probs):
                got[e["j"]["k"]] = got.get(e["j"]["k"], 0.0) + float(p_)
            ok = set(k_ for k_, v_ in got.items() if v_ > 0) == set(want) and all(abs(got.get(k_, 0.0) - v_) <= 1e-9 for k_, v_ in want.items())
            case.check(ok, "product!=normalised-natural-join", lambda: f"deep join (logit offset {D}): got {got!r} want {want!r}", deep_join=True)
    if mode != "disjoint":
        case.count("independent_products", 0)
    # ---- weighted mixture over the same variables ----------------------------------------------------------
    if mode == "same":
        w1, w2 = rng.choice([0, 0.2, 0.5, 1]), rng.choice([0.3, 0.8, 1])
        mix = case.call("mixture", lambda: (A * w1) | (B * w2), facts=facts)
        case.count("table_mixtures")
        if mix is not case.FAIL:
            ref = {}
            for r, x in zip(ra, rawa):
                k = tuple(sorted(r.items()))
                ref[k] = ref.get(k, 0.0) + w1 * x
            for r, x in zip(rb, rawb):
                k = tuple(sorted(r.items()))
                ref[k] = ref.get(k, 0.0) + w2 * x
            tot = math.fsum(ref.values())
            ref = {k: v / tot for k, v in ref.items() if v > 0}
            got = {k: v for k, v in table_dict(mix).items() if v > 0}
            ok = set(got) == set(ref) and all(abs(got[k] - ref[k]) <= 1e-9 for k in ref)
            case.check(ok, "mixture-does-not-add-weights-row-by-row", lambda: f"w=({w1},{w2}) got {got!r} want {ref!r}", **facts)
    else:
        case.count("table_mixtures", 0)
    # ---- marginalisation keeps the mass ---------------------------------------------------------------------
    p0 = pa[0]
    m = case.call("marginalize", A.marginalize, lambda e: flatten(e)[p0], facts=facts)
    if m is not case.FAIL:
        ref = {}
        for r, x in zip(ra, wa):
            ref[r[p0]] = ref.get(r[p0], 0.0) + x
        got = {e: float(p) for e, p in zip(m.support, m.probs)}
        ok = all(abs(got.get(k, 0.0) - v) <= 1e-9 for k, v in ref.items()) and abs(sum(got.values()) - 1.0) <= 1e-9
        case.check(ok, "marginalize-does-not-sum-merged-rows", lambda: f"got {got!r} want {ref!r}", **facts)
    # ---- the other documented projection forms: list of variables, a variable name as key, an expression string; t[proj] --
    tops = sorted({p_[0] for p_ in pa})
    top = rng.choice(tops)
    rowsA = [nest(r) for r in ra]

    def canon(v):
        return tuple(sorted(flatten(v).items())) if isinstance(v, dict) else ("__leaf__", v)
    # (the docstring also lists "a list" and "a dictionary key": a list raises TypeError inside eval() and a key only works
    # when it is an identifier string, i.e. the expression form; neither is part of C18's statement, so they are not judged)
    forms = [("string", top, lambda e: e[top]), ("callable-dict", (lambda e: {top: e[top]}), lambda e: {top: e[top]})]
    for fname, proj, reff in forms:
        for via in ("marginalize", "getitem"):
            if via == "getitem" and rng.random() < 0.5:
                continue
            got_t = case.call(f"marginalize({fname} projection)", (A.marginalize if via == "marginalize" else A.__getitem__), proj,
                              facts=dict(facts, projection=fname, via=via))
            case.count("projection_forms_checked")
            if got_t is case.FAIL:
                continue
            ref = {}
            for r, x in zip(rowsA, wa):
                k = canon(reff(r))
                ref[k] = ref.get(k, 0.0) + x
            got = {}
            for e, pr_ in zip(got_t.support, got_t.probs):
                got[canon(e)] = got.get(canon(e), 0.0) + float(pr_)
            ok = set(k for k, v in got.items() if v > 0) == set(k for k, v in ref.items() if v > 0) \
                and all(abs(got.get(k, 0.0) - v) <= 1e-9 for k, v in ref.items())
            case.check(ok, "marginalize-does-not-sum-merged-rows", lambda: f"{fname} projection {proj!r} via {via}: got {got!r} want {ref!r}",
                       **dict(facts, projection=fname))
    # ---- scaling by a number, Z, normalize, and the read accessors ----------------------------------------------------------
    num = rng.choice([0.25, 0.5, 2.0, 3.0])
    tot_raw = math.fsum(rawa)
    for label, fn_, factor in (("t*num", lambda: A * num, num), ("num*t", lambda: num * A, num), ("t/num", lambda: A / num, 1.0 / num)):
        sc = case.call(label, fn_, facts=facts)
        case.count("scalings_checked")
        if sc is case.FAIL:
            continue
        case.check(list(sc.support) == list(A.support), f"scaling-changes-the-rows", f"{label}", **facts)
        z = case.call("Z", lambda: float(sc.Z), facts=facts)
        if z is not case.FAIL:
            case.check(abs(z - factor * tot_raw) <= 1e-9 * max(1.0, factor * tot_raw), "scaling-does-not-multiply-the-total-weight",
                       f"{label}: Z={z!r} want {factor * tot_raw!r}", **facts)
        case.check(all(abs(float(a_) - float(b_)) <= 1e-12 for a_, b_ in zip(sc.probs, A.probs)), "scaling-changes-normalised-probabilities",
                   f"{label}: {list(map(float, sc.probs))!r} vs {list(map(float, A.probs))!r}", **facts)
    nz = case.call("normalize", A.normalize, facts=facts)
    if nz is not case.FAIL:
        z1 = case.call("Z(normalized)", lambda: float(nz.Z), facts=facts)
        if z1 is not case.FAIL:
            case.check(abs(z1 - 1.0) <= 1e-9, "normalize-does-not-give-total-weight-1", f"Z={z1!r}", **facts)
        case.check(all(abs(math.exp(l_) - w_) <= 1e-9 for l_, w_ in zip(nz.logits, wa)), "normalize-weights-are-not-the-probabilities",
                   f"{[math.exp(l_) for l_ in nz.logits]!r} vs {wa!r}", **facts)
    def acc():
        bad = []
        pos = [(r, x) for r, x in zip(rowsA, wa) if x > 0]
        items = list(A.items())
        if len(items) != len(pos) or any(canon(e) != canon(r) or abs(float(p_) - x) > 1e-12 for (e, p_), (r, x) in zip(items, pos)):
            bad.append("items")
        if len(A) != len(ra) or len(A.keys()) != len(ra):
            bad.append("len/keys")
        if any(abs(float(A.prob(r)) - x) > 1e-12 for r, x in zip(rowsA, wa)):
            bad.append("prob(row)")
        if A.prob({"__nowhere__": 1}) != 0:
            bad.append("prob(missing)")
        if not bool(A.isclose(A * 1.0)):
            bad.append("isclose(self*1)")
        return bad
    r_ = case.call("accessors", acc, facts=facts)
    case.count("accessor_sets_checked")
    if r_ is not case.FAIL:
        case.check(not r_, "table-accessors-disagree-with-rows-and-probabilities", f"{r_!r}: rows {rowsA!r} probs {wa!r}", **facts)
    # ---- no operation may change its operands: rows, weights, and the product recomputed after everything above -----------
    case.count("operand_purity_checks")
    for t_, rows_, w_, nm in ((A, ra, wa, "A"), (B, rb, wb, "B")):
        same_rows = len(t_.support) == len(rows_) and all(canon(e) == canon(nest(r)) for e, r in zip(t_.support, rows_))
        same_w = all(abs(float(g) - x) <= 1e-12 for g, x in zip(t_.probs, w_))
        case.check(same_rows and same_w, "operation-changed-its-operand",
                   lambda: f"{nm}: rows now {list(t_.support)!r} (were {[nest(r) for r in rows_]!r}), probs {list(map(float, t_.probs))!r}", **facts)
    if prod is not case.FAIL:
        prod2 = case.call("product(again)", lambda: A & B, facts=facts)
        if prod2 is not case.FAIL:
            case.check(table_dict(prod2) == table_dict(prod), "product-differs-after-other-operations-on-the-same-tables",
                       lambda: f"before {table_dict(prod)!r} after {table_dict(prod2)!r}", **facts)

