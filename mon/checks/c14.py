"""C14 — policy roll-outs are valid trajectories and Monte-Carlo evaluation averages them.
Monitor: trace checker on every trajectory returned by Policy.run_on / POMDPPolicy.run_on;
Policy.run_on is wrapped as called INSIDE Policy.evaluate_on to capture 'its own roll-outs'.
Oracle: step-by-step validity against the spec; backward recursion for returns; averages recomputed
from the captured roll-outs."""
import math
import random as _random
import numpy as np

from mon.case import Inconclusive
from mon.gen import mdp as G
from mon.gen import pomdp as GP
from mon.probe.wrap import wrap

PROP = "C14"
CASES = {"quick": 1200, "thorough": 100000}
CASE_TIMEOUT = 60
REQUIRED = ["mdp_rollouts", "mdp_steps_validated", "pomdp_rollouts", "pomdp_steps_validated",
            "calc_returns_checked", "evaluate_on_calls", "captured_rollouts", "deterministic_exact_checked"]
RULE = ("random MDP specs (all families incl. live absorbing states) and POMDP specs x policies (functional "
        "stochastic, tabular, alpha-vector value-based, stochastic finite-state controllers) x given / sampled "
        "start states (absorbing included) x step caps {0,1,2,5,50} x seeded generators x simulation counts "
        "{1,3,20}. distinct = structural signature incl. policy kind/cap/seed; non-trivial = some roll-out with "
        ">=2 steps on a branching model.")
ASSUMPTIONS = ["absorption is the model's is_absorbing() (flagged states); unflagged zero-reward self-loops do not end a roll-out",
               "a visit of the final state of a roll-out carries the (truncated) return 0, as in the roll-out's own reward sequence"]

CAPS = [0, 1, 2, 5, 50]


def run_case(case, rng):
    if rng.random() < 0.6:
        _mdp_case(case, rng)
    else:
        _pomdp_case(case, rng)
    if rng.random() < 0.12:
        _default_cap_case(case, rng)


def _default_cap_case(case, rng):
    """a caller who leaves max_steps out gets the documented cap of 2**30, i.e. in practice none: on a long deterministic
    corridor the roll-out walks to the absorbing end, and evaluate_on averages over complete roll-outs"""
    import random as _random
    from msdm.core.mdp import FunctionalPolicy
    from msdm.core.distributions import DictDistribution
    from mon.gen import build as Bd
    n = rng.choice([60, 75, 120])
    gamma = rng.choice([0.5, 0.9, 1.0])
    sp = G.Spec()
    sp.family, sp.gamma = "corridor", gamma
    sp.states = list(range(n + 1))
    for i in range(n + 1):
        sp.acts[i] = ("go",)
        t = min(i + 1, n)
        sp.P[(i, "go")] = [(t, 1.0)]
        sp.kind[(i, "go")] = "dict"
        sp.R[(i, "go", t)] = -1.0 if i < n else 0.0
    sp.flag = {n}
    sp.init = [(0, 1.0)]
    sp.meta.update(abs_type="bool", num_type="float", actions_type="tuple", fresh_labels=False)
    mdp = Bd.SpecMDP(sp)
    pol = FunctionalPolicy(lambda s: DictDistribution({"go": 1.0}))
    sim = case.call("Policy.run_on(default max_steps)", pol.run_on, mdp, rng=_random.Random(1))
    case.count("default_cap_rollouts")
    if sim is not case.FAIL:
        states = list(sim.state)
        case.check(states == list(range(n + 1)), "rollout:stopped-before-the-absorbing-state-although-no-cap-was-given",
                   lambda: f"corridor of {n} steps: visited {len(states)} states, last {states[-1]!r}")
    res = case.call("Policy.evaluate_on(default max_steps)", pol.evaluate_on, mdp, n_simulations=2, rng=_random.Random(2))
    if res is not case.FAIL:
        want0 = -float(n) if gamma == 1.0 else -(1 - gamma ** n) / (1 - gamma)
        got_states = set(res.state_value.keys())
        case.check(got_states == set(range(n + 1)), "evaluate_on:roll-outs-truncated-although-no-cap-was-given",
                   lambda: f"corridor of {n} steps, gamma {gamma}: {len(got_states)} of {n + 1} states visited")
        case.check(abs(float(res.initial_value) - want0) <= 1e-9 * max(1.0, abs(want0)), "evaluate_on:initial_value!=exact-return",
                   lambda: f"{float(res.initial_value)!r} vs {want0!r}")


def _returns(rewards, gamma):
    out = [0.0] * len(rewards)
    g = 0.0
    for t in range(len(rewards) - 1, -1, -1):
        g = rewards[t] + gamma * g
        out[t] = g
    return out


def _mdp_case(case, rng):
    from msdm.core.mdp import FunctionalPolicy, TabularPolicy, Policy
    from msdm.core.distributions import DictDistribution
    from mon.gen import build as Bd

    fam = rng.choice(["any", "proper", "sspneg", "zerocycle"])
    det_case = rng.random() < 0.2
    sp = G.random_spec(rng, fam, n_max=6, allow_implicit=True)
    if det_case:
        for key, lst in list(sp.P.items()):
            tgt = max(lst, key=lambda x: x[1])[0]
            sp.P[key] = [(tgt, 1.0)]
            sp.kind[key] = "dict"
    G.restrict_to_closure(sp, rng)
    sp.init = [(s, p) for s, p in sp.init if p > 0]
    if det_case:
        sp.init = [(sp.init[0][0], 1.0)]
    mdp = Bd.build(sp, rng.choice(["subclass", "quicktabular"]))
    gamma = sp.gamma
    pol = G.random_policy(rng, sp, deterministic=True if det_case else None)
    kind = rng.choice(["functional", "tabular"])
    if kind == "functional":
        policy = FunctionalPolicy(lambda s: DictDistribution(pol[s]))
    else:
        S, A = list(sp.states), sp.action_universe()
        data = np.array([[pol[s].get(a, 0.0) for a in A] for s in S])
        policy = TabularPolicy.from_state_action_lists(state_list=S, action_list=A, data=data)
    case.family = f"mdp-{kind}" + ("-det" if det_case else "")
    case.params = dict(gamma=gamma, n=len(sp.states), family=fam)
    init_support = {s for s, p in sp.init}
    longest = 0

    def check_traj(sim, start, cap, label):
        nonlocal longest
        steps = list(sim.steps)
        n = len(steps) - 1
        longest = max(longest, n)
        if start is not None:
            case.check(steps[0]["state"] == start, f"{label}:does-not-start-at-given-state", f"{steps[0]['state']!r} vs {start!r}")
        else:
            case.check(steps[0]["state"] in init_support, f"{label}:sampled-start-not-in-initial-support", repr(steps[0]["state"]))
        case.check(n <= cap, f"{label}:more-steps-than-cap", f"{n} > {cap}")
        for k in range(n):
            st = steps[k]
            s, a, ns, r = st["state"], st["action"], st["next_state"], st["reward"]
            case.count("mdp_steps_validated")
            ok = (s in sp.acts and pol[s].get(a, 0) > 0 and sp.succ(s, a).get(ns, 0) > 0 and r == sp.reward(s, a, ns))
            case.check(ok, f"{label}:invalid-step", lambda: f"step {k}: {dict(st)!r}")
            case.check(st["timestep"] == k, f"{label}:timestep-wrong", f"{st['timestep']} vs {k}")
            case.check(steps[k + 1]["state"] == ns, f"{label}:steps-do-not-chain", f"step {k}")
            case.check(s not in sp.flag, f"{label}:continued-after-absorbing-state", f"step {k} from absorbing {s!r}")
        last = steps[-1]["state"]
        if n < cap:
            case.check(last in sp.flag, f"{label}:stopped-before-cap-at-non-absorbing-state", f"n={n} cap={cap} last={last!r}")
        return n

    # ---- roll-outs -------------------------------------------------------------------------------------
    for _ in range(4):
        cap = rng.choice(CAPS)
        start = rng.choice([None, None] + list(sp.states))
        seed = rng.randrange(2 ** 31)
        sim = case.call("Policy.run_on", policy.run_on, mdp, initial_state=start, max_steps=cap, rng=_random.Random(seed))
        case.count("mdp_rollouts")
        if sim is case.FAIL:
            continue
        check_traj(sim, start, cap, "rollout")
        # returns
        rw = list(sim.reward)
        got = case.call("calc_returns", Policy.calc_returns, rw, gamma)
        case.count("calc_returns_checked")
        if got is not case.FAIL:
            ref = _returns(rw, gamma)
            ok = len(got) == len(ref) and all(abs(g - r) <= 1e-12 * max(1.0, abs(r)) * max(1, len(rw)) for g, r in zip(got, ref))
            case.check(ok, "calc_returns!=backward-recursion", lambda: f"{list(map(float, got))!r} vs {ref!r}")
    # arbitrary reward sequences, incl. long ones with a small discount (gamma**t underflows to 0.0) and gamma = 0
    if rng.random() < 0.25:
        seq = [rng.choice([-2.0, 0.0, 1.0, 3.5]) for _ in range(rng.choice([330, 400, 1100]))]
        g2 = rng.choice([0.1, 0.5, 0.0, 0.01])
        if g2 == 0.5 and len(seq) < 1100:
            g2 = 0.1
    else:
        seq = [rng.choice([-2.0, 0.0, 1.0, 3.5]) for _ in range(rng.randint(1, 12))]
        g2 = rng.choice([0.3, 0.9, 1.0, 0.0])
    # the same numbers as Python ints, a tuple, numpy integer / float arrays, bools
    irep = rng.choice(["float_list", "int_list", "int_tuple", "np_int", "np_float", "bool_list", "0d_arrays"])
    shared_objs = None
    if irep == "0d_arrays":
        # rewards handed out as 0-d numpy arrays, the SAME stored object wherever the same reward occurs (a model that keeps
        # its step cost in an array): the caller's objects must come back untouched
        vals_ = {v_: np.asarray(float(v_)) for v_ in (-2, 0, 1, 3, 10)}
        base = [int(rng.choice([-2, 0, 1, 3, 10])) for _ in range(min(len(seq), 12))]
        shared_objs = vals_
        seq = [vals_[b_] for b_ in base]
    elif irep != "float_list":
        base = [int(rng.choice([-2, 0, 1, 3, 10])) for _ in range(len(seq) if len(seq) <= 12 else 12)]
        if irep == "bool_list":
            base = [bool(x % 2) for x in base]
        seq = {"int_list": base, "int_tuple": tuple(base), "np_int": np.array(base, dtype=np.int64),
               "np_float": np.array(base, dtype=float), "bool_list": base}[irep]
    got = case.call("calc_returns", Policy.calc_returns, seq, g2, facts=dict(sequence_type=irep))
    if shared_objs is not None:
        case.check(all(float(o_) == float(k_) for k_, o_ in shared_objs.items()), "calc_returns-changed-the-caller's-reward-objects",
                   lambda: f"{ {k_: float(o_) for k_, o_ in shared_objs.items()}!r}", sequence_type=irep)
        seq = [float(b_) for b_ in base]
    seq = [float(x) for x in seq]
    case.count("calc_returns_checked")
    if got is not case.FAIL:
        ref = _returns(seq, g2)
        case.check(len(got) == len(ref) and all(abs(g - r) <= 1e-12 * max(1.0, abs(r)) * min(len(seq), 50) for g, r in zip(got, ref)),
                   "calc_returns!=backward-recursion",
                   lambda: f"gamma={g2} n={len(seq)}: first mismatch {[(i, float(g), r) for i, (g, r) in enumerate(zip(got, ref)) if not abs(g - r) <= 1e-10 * max(1.0, abs(r))][:2]!r}")

    # ---- a policy whose action distributions are updated IN PLACE between roll-outs (policy improvement loops) ----
    if kind == "functional" and not det_case:
        live = {s_: DictDistribution(dict(pol[s_])) for s_ in sp.states}
        fp2 = FunctionalPolicy(lambda s_: live[s_])
        r1 = case.call("Policy.run_on(before update)", fp2.run_on, mdp, max_steps=20, rng=_random.Random(rng.randrange(2 ** 31)))
        newpol = {}
        for s_ in sp.states:
            keys = list(live[s_].keys())
            keep = rng.choice(keys)
            for a_ in keys:
                live[s_][a_] = 1.0 if a_ == keep else 0.0
            newpol[s_] = keep
        r2 = case.call("Policy.run_on(after update)", fp2.run_on, mdp, max_steps=20, rng=_random.Random(rng.randrange(2 ** 31)))
        case.count("rollouts_after_inplace_policy_update")
        if r2 is not case.FAIL:
            bad = [(st["state"], st["action"]) for st in list(r2.steps)[:-1] if st["action"] != newpol[st["state"]]]
            case.check(not bad, "rollout:action-has-zero-probability-under-the-updated-policy", lambda: f"{bad[:3]!r}")
    # ---- Monte-Carlo evaluation --------------------------------------------------------------------------
    nsim = rng.choice([1, 3, 20])
    cap = rng.choice([1, 2, 5, 50])
    seed = rng.randrange(2 ** 31)
    captured = []

    if kind == "functional" and rng.random() < 0.4:
        # a policy SUBCLASS that overrides the public run_on (a receding-horizon policy: never more than 2 steps per roll-out,
        # and it keeps what it did): evaluate_on reports on THIS policy's roll-outs
        own = []

        class TwoSteps(FunctionalPolicy):
            def run_on(self_, mdp_, initial_state=None, max_steps=2 ** 30, rng=_random):
                out_ = FunctionalPolicy.run_on(self_, mdp_, initial_state=initial_state, max_steps=min(max_steps, 2), rng=rng)
                own.append(out_)
                return out_
        tp_ = TwoSteps(lambda s: DictDistribution(pol[s]))
        r_ = case.call("Policy.evaluate_on(subclass overriding run_on)", tp_.evaluate_on, mdp, n_simulations=3, max_steps=6,
                       rng=_random.Random(seed + 1))
        case.count("evaluations_of_policies_overriding_run_on")
        if r_ is not case.FAIL:
            ok_ = len(own) == 3 and all(len(list(o_.steps)) - 1 <= 2 for o_ in own)
            want_ = sum(_returns(list(o_.reward), gamma)[0] for o_ in own) / max(1, len(own)) if own else None
            case.check(ok_ and want_ is not None and abs(float(r_.initial_value) - want_) <= 1e-10 * max(1.0, abs(want_)),
                       "evaluate_on:does-not-average-the-policy's-own-roll-outs",
                       lambda: f"{len(own)} own roll-outs recorded (3 simulations asked for); initial_value {float(r_.initial_value)!r} vs mean of own {want_!r}")

    def after(args, kwargs, out, exc):
        if exc is None:
            captured.append(out)
    with wrap(Policy, "run_on", after=after) as w:
        res = case.call("Policy.evaluate_on", Policy.evaluate_on, policy, mdp, n_simulations=nsim, max_steps=cap,
                        rng=_random.Random(seed))
    case.count("evaluate_on_calls")
    case.count("captured_rollouts", len(captured))
    if res is not case.FAIL:
        case.check(len(captured) == nsim, "evaluate_on:number-of-rollouts-differs", f"{len(captured)} vs {nsim}")
        sv, av, visits, iv = {}, {}, {}, []
        for sim in captured:
            check_traj(sim, None, cap, "evaluate-rollout")
            rets = _returns(list(sim.reward), gamma)
            iv.append(rets[0])
            for ret, s, a in zip(rets, sim.state, sim.action):
                sv.setdefault(s, []).append(ret)
                if a is not None:
                    av.setdefault((s, a), []).append(ret)
        tol = lambda x, y: abs(x - y) <= 1e-10 * max(1.0, abs(y))
        case.check(tol(float(res.initial_value), sum(iv) / len(iv)), "evaluate_on:initial_value!=mean-of-rollout-returns",
                   f"{float(res.initial_value)!r} vs {sum(iv) / len(iv)!r}")
        case.check(res.n_simulations == nsim, "evaluate_on:n_simulations-wrong", "")
        case.check(set(res.state_value.keys()) == set(sv), "evaluate_on:state_value-keys!=visited-states", "")
        for s, lst in sv.items():
            g = case.call("state_value[s]", lambda: float(res.state_value[s]))
            if g is not case.FAIL:
                case.check(tol(g, sum(lst) / len(lst)), "evaluate_on:state_value!=every-visit-mean", f"{s!r}: {g!r} vs {sum(lst) / len(lst)!r}")
            o = case.call("state_occupancy[s]", lambda: float(res.state_occupancy[s]))
            if o is not case.FAIL:
                case.check(tol(o, len(lst) / nsim), "evaluate_on:state_occupancy!=visit-frequency", f"{s!r}: {o!r} vs {len(lst) / nsim!r}")
        for (s, a), lst in av.items():
            g = case.call("action_value[s][a]", lambda: float(res.action_value[s][a]))
            if g is not case.FAIL:
                case.check(tol(g, sum(lst) / len(lst)), "evaluate_on:action_value!=per-action-mean", f"{(s, a)!r}: {g!r} vs {sum(lst) / len(lst)!r}")
        if det_case:
            # exact truncated return of the deterministic chain
            case.count("deterministic_exact_checked")
            s = sp.init[0][0]
            total, disc = 0.0, 1.0
            for t in range(cap):
                if s in sp.flag:
                    break
                a = next(iter(pol[s]))
                ns = next(iter(sp.succ(s, a)))
                total += disc * sp.reward(s, a, ns)
                disc *= gamma
                s = ns
            case.check(tol(float(res.initial_value), total), "evaluate_on:deterministic-initial_value!=truncated-exact-return",
                       f"{float(res.initial_value)!r} vs {total!r} cap={cap}")
    if not det_case:
        case.count("deterministic_exact_checked", 0)
    branch = any(len(sp.succ(s, a)) >= 2 for s in sp.states for a in sp.acts[s]) or any(len(pol[s]) >= 2 for s in sp.states)
    case.nontrivial = longest >= 2 and (branch or det_case)
    case.sig("mdp", kind, det_case, fam, len(sp.states), gamma, nsim, cap, longest, seed % 1000)
    case.sample = dict(spec=sp.describe(), policy_kind=kind, longest_rollout=longest)


def _pomdp_case(case, rng):
    from msdm.core.pomdp.alphavectorpolicy import AlphaVectorPolicy
    from msdm.core.pomdp.finitestatecontroller import StochasticFiniteStateController
    from mon.gen import build as Bd

    sp = GP.random_pomdp(rng)
    pomdp = Bd.build_pomdp(sp, explicit=rng.random() < 0.5)
    S, A, OL = list(pomdp.state_list), list(pomdp.action_list), list(pomdp.observation_list)
    if set(S) != set(sp.states):
        raise Inconclusive("state_list differs from closure")
    kind = rng.choice(["alpha", "fsc", "nodes"])
    nn = None
    if kind == "nodes":
        # a deterministic-memory controller whose agent states are the integers 0..n-1 (node 0 is a node like any other)
        from msdm.core.pomdp.policy import POMDPPolicy
        from msdm.core.distributions import DictDistribution
        nn = rng.randint(2, 3)
        act_rows = [dict(zip(A, _simplex(rng, len(A)))) for _ in range(nn)]
        nxt = {(n_, a_, o_): rng.randrange(nn) for n_ in range(nn) for a_ in A for o_ in OL}
        first = rng.randrange(1, nn)

        class NodePolicy(POMDPPolicy):
            def initial_agentstate(self):
                return first

            def action_dist(self, ag):
                return DictDistribution({a_: p_ for a_, p_ in act_rows[ag].items() if p_ > 0})

            def next_agentstate(self, ag, a, o):
                return nxt[(ag, a, o)]
        policy = NodePolicy()
    elif kind == "alpha":
        k = rng.randint(1, 3)
        alphas = np.array([[rng.choice([-3.0, -1.0, 0.0, 0.5, 2.0]) for _ in S] for _ in range(k)])
        policy = AlphaVectorPolicy(pomdp, alphas)
    else:
        nn = rng.randint(1, 3)
        act = np.array([_simplex(rng, len(A)) for _ in range(nn)])
        obs = np.array([[[_simplex(rng, nn) for _ in OL] for _ in A] for _ in range(nn)])
        init = np.array(_simplex(rng, nn, positive=True))
        policy = StochasticFiniteStateController(pomdp, act, obs, init)
    case.family = f"pomdp-{kind}"
    case.params = dict(gamma=sp.gamma, n=len(S), actions=len(A), obs=len(OL), special=sp.meta.get("special"))
    init_support = {s for s, p in sp.init if p > 0}
    longest = 0

    def same_ag(x, y):
        if isinstance(x, np.ndarray) or isinstance(y, np.ndarray):
            return np.array_equal(np.asarray(x), np.asarray(y))
        return x == y

    for _ in range(4):
        cap = rng.choice(CAPS)
        # a belief-tracking policy is only meaningful from a start state its initial belief allows
        start = rng.choice([None, None] + (S if kind in ("fsc", "nodes") else sorted(init_support, key=repr)))
        seed = rng.randrange(2 ** 31)
        # the agent state may be given explicitly too (resuming a roll-out): node 0, a vertex of the node simplex, ...
        given_ag = None
        if kind == "nodes" and rng.random() < 0.6:
            given_ag = rng.randrange(nn)
        elif kind == "fsc" and rng.random() < 0.4:
            given_ag = np.zeros(len(policy.initial_agentstate()))
            given_ag[rng.randrange(len(given_ag))] = 1.0
        kw_ag = {} if given_ag is None else dict(initial_agentstate=given_ag)
        traj = case.call("POMDPPolicy.run_on", policy.run_on, pomdp, initial_state=start, max_steps=cap,
                         rng=_random.Random(seed), **kw_ag)
        case.count("pomdp_rollouts")
        if traj is case.FAIL:
            continue
        n = len(traj) - 1
        longest = max(longest, n)
        if given_ag is not None:
            case.count("pomdp_rollouts_from_given_agentstate")
            case.check(same_ag(traj[0].agentstate, given_ag), "pomdp-rollout:does-not-start-at-given-agentstate",
                       lambda: f"given {given_ag!r} got {traj[0].agentstate!r}", policy_kind=kind)
        if start is not None:
            case.check(traj[0].state == start, "pomdp-rollout:does-not-start-at-given-state", "")
        else:
            case.check(traj[0].state in init_support, "pomdp-rollout:sampled-start-not-in-initial-support", repr(traj[0].state))
        if given_ag is None:
            case.check(same_ag(traj[0].agentstate, policy.initial_agentstate()), "pomdp-rollout:first-agentstate!=initial_agentstate", "")
        case.check(n <= cap, "pomdp-rollout:more-steps-than-cap", f"{n} > {cap}")
        for k in range(n):
            st = traj[k]
            case.count("pomdp_steps_validated")
            pa = dict(policy.action_dist(st.agentstate).items()).get(st.action, 0.0)
            ok = (pa > 0 and st.action in A and sp.succ(st.state, st.action).get(st.nextstate, 0) > 0
                  and st.reward == sp.reward(st.state, st.action, st.nextstate)
                  and GP.obs_prob(sp, st.action, st.nextstate, st.observation) > 0)
            case.check(ok, "pomdp-rollout:invalid-step", lambda: f"step {k}: {st!r}")
            case.check(st.state not in sp.flag, "pomdp-rollout:continued-after-absorbing-state", f"step {k}")
            case.check(traj[k + 1].state == st.nextstate, "pomdp-rollout:states-do-not-chain", f"step {k}")
            nag = policy.next_agentstate(st.agentstate, st.action, st.observation)
            case.check(same_ag(st.nextagentstate, nag) and same_ag(traj[k + 1].agentstate, nag),
                       "pomdp-rollout:agentstate-does-not-follow-policy-update", f"step {k}")
        if n < cap:
            case.check(traj[-1].state in sp.flag, "pomdp-rollout:stopped-before-cap-at-non-absorbing-state", f"n={n} cap={cap}")
        case.check(traj[-1].action is None, "pomdp-rollout:last-entry-is-not-terminal-marker", "")
    for name in ("mdp_rollouts", "mdp_steps_validated", "calc_returns_checked", "evaluate_on_calls", "captured_rollouts",
                 "deterministic_exact_checked"):
        case.count(name, 0)
    case.nontrivial = longest >= 2
    case.sig("pomdp", kind, len(S), len(A), len(OL), sp.gamma, longest, sp.meta.get("special"))
    case.sample = dict(spec=sp.describe(), policy_kind=kind, longest_rollout=longest)


def _simplex(rng, n, positive=False):
    if n == 1:
        return [1.0]
    k = n if positive else rng.randint(1, n)
    idx = rng.sample(range(n), k)
    probs = G.rand_probs(rng, k)
    out = [0.0] * n
    for i, p in zip(idx, probs):
        out[i] = p
    return out



def parent_phase(tier, seed, jobs, tmp, envf):
    """thorough tier: the repository's own test-suite under the ambient 'rollout' monitor"""
    if tier != "thorough":
        return [], None
    from mon.probe.ambient import run_ambient
    rec = run_ambient({"rollout"}, tmp, envf)
    rec["prop"] = PROP
    return [rec], {"ambient_test_suite": rec["sample"]}
