"""C19 — entropy-regularised policy iteration converges to the soft Bellman fixed point.
Monitor: boundary recording of entropy_regularized_policy_iteration and of the planner wrapper.
Oracle (only when `converged`): one-step look-ahead, prior-weighted softmax, log-sum-exp, and the
quantitative form of the zero-temperature limit against a reference hard VI."""
import math
import numpy as np

from mon.case import Inconclusive
from mon.gen import mdp as G

PROP = "C19"
CASES = {"quick": 400, "thorough": 40000}
CASE_TIMEOUT = 120
REQUIRED = ["raw_calls", "wrapper_calls", "converged_runs", "q_entries_checked", "policy_entries_checked",
            "limit_bounds_checked"]
RULE = ("random row-stochastic transition tensors (2-6 states, 1-4 actions, float64), integer reward tensors "
        "(full or broadcast shapes), gamma in {.3,.9,.99}, entropy weights {2^-10,2^-7,.05,.1,1,10} scalar or "
        "per-state, priors on the open simplex (shared or per-state) or uniform, force_nonzero_probabilities "
        "on/off; planner wrapper on generated MDPs with full action sets. Only converged runs are judged. "
        "distinct = (shape, gamma, weight, prior kind, flag) signature + tensor hash; non-trivial = >=2 actions.")
ASSUMPTIONS = ["tolerances derived from the code's own convergence test (isclose rtol 1e-5, atol 1e-8) and from the "
               "float32 representation of the weight tensor (2*2^-24*max|q/w|)",
               "hard optimal values from plain value iteration to 1e-13"]


def hard_q(T, ER, gamma):
    v = np.zeros(T.shape[0])
    for _ in range(200000):
        q = ER + gamma * np.einsum("san,n->sa", T, v)
        vn = q.max(1)
        if np.abs(vn - v).max() <= 1e-13 * max(1.0, np.abs(vn).max()):
            v = vn
            break
        v = vn
    return ER + gamma * np.einsum("san,n->sa", T, v)


def judge(case, label, T, ER, gamma, w_vec, prior, q, v, pi, uniform_prior, facts):
    nS, nA = ER.shape
    scale = max(1.0, np.abs(q).max())
    # (1) action values are the one-step look-ahead of the state values
    rhs = ER + gamma * np.einsum("san,n->sa", T, v)
    case.count("q_entries_checked", q.size)
    bad = np.argwhere(np.abs(q - rhs) > 1e-9 * scale)
    case.check(len(bad) == 0, f"{label}:action_values!=one-step-lookahead-of-state_values",
               lambda: f"at {bad[0].tolist()}: {q[tuple(bad[0])]!r} vs {rhs[tuple(bad[0])]!r}", **facts)
    # (2) policy is the prior-weighted softmax of q / w
    z = q / w_vec[:, None] + np.log(prior)
    z = z - z.max(1, keepdims=True)
    sm = np.exp(z)
    sm = sm / sm.sum(1, keepdims=True)
    f32 = 2 * 2.0 ** -24 * np.abs(q / w_vec[:, None]).max()
    case.count("policy_entries_checked", pi.size)
    tol = 2 * (1e-8 + 1e-5 * sm) + 4 * f32 * sm + 1e-12
    bad = np.argwhere(np.abs(pi - sm) > tol)
    case.check(len(bad) == 0, f"{label}:policy!=prior-weighted-softmax",
               lambda: f"at {bad[0].tolist()}: pi={pi[tuple(bad[0])]!r} softmax={sm[tuple(bad[0])]!r} tol={tol[tuple(bad[0])]:.3g}", **facts)
    case.check(bool(np.allclose(pi.sum(1), 1.0, atol=1e-9)), f"{label}:policy-rows-not-normalised", "", **facts)
    # (3) state values are the prior-weighted log-sum-exp
    zz = q / w_vec[:, None] + np.log(prior)
    m = zz.max(1)
    lse = w_vec * (m + np.log(np.exp(zz - m[:, None]).sum(1)))
    tolv = 1e-6 * scale + 4 * f32 * w_vec.max() + 1e-4 * w_vec.max() * 1e-3
    bad = np.argwhere(np.abs(v - lse) > tolv)
    case.check(len(bad) == 0, f"{label}:state_values!=prior-weighted-logsumexp",
               lambda: f"at {bad[0].tolist()}: v={v[bad[0][0]]!r} lse={lse[bad[0][0]]!r} tol={tolv:.3g}", **facts)
    # (4) quantitative zero-temperature limit (uniform prior)
    if uniform_prior:
        qh = hard_q(T, ER, gamma)
        slack = w_vec.max() * math.log(nA) / (1 - gamma)
        t = 1e-6 * scale + 1e-9
        case.count("limit_bounds_checked", q.size)
        lo_bad = np.argwhere(q < qh - slack - t)
        hi_bad = np.argwhere(q > qh + t)
        case.check(len(lo_bad) == 0 and len(hi_bad) == 0, f"{label}:soft-action-values-outside-hard-bracket",
                   lambda: f"q_soft vs q_hard: low {lo_bad[:1].tolist()} high {hi_bad[:1].tolist()} slack={slack:.4g} "
                           f"q={q.tolist()!r} qh={qh.tolist()!r}", **facts)


def run_case(case, rng):
    import torch
    from msdm.algorithms.entregpolicyiteration import entropy_regularized_policy_iteration, \
        EntropyRegularizedPolicyIteration
    if rng.random() < 0.7:
        # ---------------- raw function ---------------------------------------------------------------
        nS, nA = rng.randint(2, 6), rng.randint(1, 4)
        T = np.zeros((nS, nA, nS))
        for s in range(nS):
            for a in range(nA):
                k = rng.randint(1, min(3, nS))
                for t, p in zip(rng.sample(range(nS), k), G.rand_probs(rng, k)):
                    T[s, a, t] = p
        shape = rng.choice(["full", "full", "sa", "s_n"])
        if shape == "full":
            R = np.array([[[float(rng.randint(-5, 5)) for _ in range(nS)] for _ in range(nA)] for _ in range(nS)])
        elif shape == "sa":
            R = np.array([[[float(rng.randint(-5, 5))] for _ in range(nA)] for _ in range(nS)])
        else:
            R = np.array([[[float(rng.randint(-5, 5)) for _ in range(nS)]] for _ in range(nS)])
        if rng.random() < 0.2:
            # a large constant added to every reward: values shift by c/(1-gamma), the policy must not move at all
            R = R + rng.choice([1e3, 1e5, -1e5])
        gamma = rng.choice([0.3, 0.9, 0.99, 0.3, 0.9, 0.99, 0.9995])      # (and a horizon of thousands of steps)
        w = rng.choice([2.0 ** -10, 2.0 ** -7, 0.05, 0.1, 1.0, 1.0, 10.0, 2, 5, np.float64(0.5)])   # Python ints too (numpy ints are not among the documented types)
        per_state = rng.random() < 0.3
        if per_state:
            wv = np.array([rng.choice([0.05, 0.1, 1.0, 10.0]) for _ in range(nS)])
            ew = torch.tensor(wv, dtype=torch.float64) if rng.random() < 0.5 else torch.tensor(wv.astype(np.float32))
        else:
            wv = np.full(nS, float(w))
            ew = w
        pk = rng.choice(["none", "shared", "per_state"])
        if pk == "none":
            prior_t, prior = None, np.full((nS, nA), 1.0 / nA)
        elif pk == "shared":
            p = np.array(_open_simplex(rng, nA))
            prior_t, prior = torch.tensor(p[None, :]), np.tile(p, (nS, 1))
        else:
            prior = np.array([_open_simplex(rng, nA) for _ in range(nS)])
            prior_t = torch.tensor(prior)
        force = rng.random() < 0.5
        iters = rng.choice([300, 2000, 300, 2000, 1, 2, 3])      # and budgets the iteration cannot settle within
        case.family = "raw"
        case.params = dict(nS=nS, nA=nA, gamma=gamma, weight=("per-state" if per_state else w), prior=pk,
                           force_nonzero=force, reward_shape=shape, iters=iters)
        res = case.call("entropy_regularized_policy_iteration", entropy_regularized_policy_iteration,
                        transition_matrix=torch.tensor(T), reward_matrix=torch.tensor(R), discount_rate=gamma,
                        entropy_weight=ew, n_planning_iters=iters, policy_prior=prior_t,
                        force_nonzero_probabilities=force)
        case.count("raw_calls")
        case.count("wrapper_calls", 0)
        case.nontrivial = nA >= 2
        case.sig("raw", nS, nA, gamma, case.params["weight"], pk, force, shape, hash(T.tobytes()) % 10 ** 6)
        case.sample = dict(config=case.params, T=T.tolist(), R=R.tolist())
        if res is case.FAIL:
            return
        if not bool(res.converged):
            case.count("not_converged")
            for k in ("converged_runs", "q_entries_checked", "policy_entries_checked", "limit_bounds_checked"):
                case.count(k, 0)
            return
        case.count("converged_runs")
        ER = (T * np.broadcast_to(R, T.shape)).sum(-1)
        q = res.action_values.detach().numpy().astype(float)
        v = res.state_values.detach().numpy().astype(float)
        pi = res.policy.detach().numpy().astype(float)
        judge(case, "raw", T, ER, gamma, wv, prior, q, v, pi, pk == "none", dict(case.params))
        if pk != "none":
            case.count("limit_bounds_checked", 0)
    else:
        # ---------------- planner wrapper on an MDP with full action sets -----------------------------------
        from mon.gen import build as Bd
        from mon.ref import mdp as Rf
        sp = G.random_spec(rng, "any", n_max=6, a_max=3, uniform_actions=True, allow_live_absorbing=False,
                           allow_dup_actions=False)
        G.restrict_to_closure(sp, rng)
        sp.init = [(s, p) for s, p in sp.init if p > 0]
        rep = rng.choice(["subclass", "quicktabular", "from_matrices_own_order"])
        if rep == "from_matrices_own_order":
            # the MDP handed over as matrices with states and actions in the caller's own (unsorted) order: a positional
            # policy prior refers to THAT action order
            from msdm.core.mdp import TabularMarkovDecisionProcess
            S0, A0 = list(sp.states), list(sp.action_universe())
            rng.shuffle(S0)
            rng.shuffle(A0)
            a0 = Rf.Arr(sp, states=S0, actions=A0)
            mdp = TabularMarkovDecisionProcess.from_matrices(
                state_list=tuple(S0), action_list=tuple(A0), initial_state_vec=a0.init.copy(), transition_matrix=a0.T.copy(),
                action_matrix=a0.avail.astype(float), reward_matrix=a0.R.copy(),
                absorbing_state_vec=a0.flag.copy(), discount_rate=sp.gamma)
        else:
            mdp = Bd.build(sp, rep)
        S, A = list(mdp.state_list), list(mdp.action_list)
        if rep == "from_matrices_own_order" and (S != S0 or A != A0):
            case.fail("wrapper:from_matrices-lists-not-kept", f"state_list {S!r} vs {S0!r}; action_list {A!r} vs {A0!r}")
            S, A = S0, A0
        if set(S) != set(sp.states):
            raise Inconclusive("state_list differs")
        arr = Rf.Arr(sp, states=S, actions=A)
        w = rng.choice([0.05, 0.1, 1.0, 1.0, 10.0])
        iters = rng.choice([300, 2000, 300, 2000, 1, 2, 3, None])      # budgets the iteration cannot settle within; the default
        # the wrapper's own policy prior: default (uniform over available actions), one row shared by all states, or S x A
        pk = rng.choice(["none", "none", "shared", "per_state"])
        if pk == "none":
            wprior_t, wprior = None, np.full((len(S), len(A)), 1.0 / len(A))
        elif pk == "shared":
            p_ = np.array(_open_simplex(rng, len(A)))
            wprior_t, wprior = torch.tensor(p_[None, :]), np.tile(p_, (len(S), 1))
        else:
            wprior = np.array([_open_simplex(rng, len(A)) for _ in S])
            wprior_t = torch.tensor(wprior)
        case.family = "wrapper"
        case.params = dict(rep=rep, n=len(S), actions=len(A), gamma=sp.gamma, weight=w, iters=iters, prior=pk)
        kw_ = {} if iters is None else dict(iterations=iters)
        if wprior_t is not None:
            kw_["policy_prior"] = wprior_t
        from mon import defaults as Dflt
        Dflt.in_force(case, "EntropyRegularizedPolicyIteration", EntropyRegularizedPolicyIteration(), passed={})
        wplanner = EntropyRegularizedPolicyIteration(entropy_weight=w, **kw_)
        if rng.random() < 0.4:
            # a SECOND planner object with another temperature (and the default prior) is created, and used, while this one is alive
            w_other = rng.choice([x for x in (0.05, 0.3, 2.0, 20.0) if x != w])
            other_planner = EntropyRegularizedPolicyIteration(entropy_weight=w_other)
            if rng.random() < 0.5:
                case.call("plan_on(another planner object)", other_planner.plan_on, mdp)
            case.count("planner_objects_alive_side_by_side")
        if rng.random() < 0.3:
            # the same planner object first plans on an unrelated MDP (other sizes, its own default prior)
            osp = G.random_spec(rng, "any", n_max=4, a_max=3, uniform_actions=True, allow_live_absorbing=False,
                                allow_dup_actions=False)
            G.restrict_to_closure(osp, rng)
            osp.init = [(s_, p_) for s_, p_ in osp.init if p_ > 0]
            if pk == "none":
                case.call("EntropyRegularizedPolicyIteration.plan_on(other MDP first)", wplanner.plan_on, Bd.build(osp, "subclass"))
                case.count("wrapper_planners_reused")
        res = case.call("EntropyRegularizedPolicyIteration.plan_on", wplanner.plan_on, mdp)
        case.count("wrapper_calls")
        case.count("raw_calls", 0)
        case.nontrivial = len(A) >= 2
        case.sig("wrapper", len(S), len(A), sp.gamma, w, int((arr.T > 0).sum()))
        case.sample = dict(config=case.params, spec=sp.describe())
        if res is case.FAIL:
            return
        if not bool(res.converged):
            case.count("not_converged")
            for k in ("converged_runs", "q_entries_checked", "policy_entries_checked", "limit_bounds_checked"):
                case.count(k, 0)
            return
        case.count("converged_runs")
        q = np.array([[float(res.Q[s][a]) for a in A] for s in S])
        v = np.array([float(res.V[s]) for s in S])
        pi = np.array([[float(res.policy[s][a]) for a in A] for s in S])
        judge(case, "wrapper", arr.T, arr.ER, sp.gamma, np.full(len(S), w), wprior,
              q, v, pi, pk == "none", dict(case.params))
        iv = float(res.initial_value)
        exp = sum(p * float(res.V[s]) for s, p in sp.init)
        case.check(abs(iv - exp) <= 1e-9 * max(1, abs(exp)), "wrapper:initial_value!=E[V]", f"{iv!r} vs {exp!r}")
        # the same planner object, another temperature, the SAME mdp object (annealing): judged for the new weight
        w2 = rng.choice([x for x in (0.05, 0.1, 1.0, 10.0) if x != w])
        planner = EntropyRegularizedPolicyIteration(entropy_weight=w, **kw_)
        first = case.call("plan_on(first)", planner.plan_on, mdp)
        planner.entropy_weight = w2
        res2 = case.call("plan_on(second weight)", planner.plan_on, mdp)
        case.count("replans_with_new_weight")
        if first is not case.FAIL and res2 is not case.FAIL and bool(res2.converged):
            q2 = np.array([[float(res2.Q[s][a]) for a in A] for s in S])
            v2 = np.array([float(res2.V[s]) for s in S])
            pi2 = np.array([[float(res2.policy[s][a]) for a in A] for s in S])
            judge(case, "wrapper-replan", arr.T, arr.ER, sp.gamma, np.full(len(S), w2), wprior,
                  q2, v2, pi2, pk == "none", dict(case.params, second_weight=w2))


def _open_simplex(rng, n):
    w = [rng.choice([1, 1, 2, 3, 5]) for _ in range(n)]
    t = sum(w)
    return [x / t for x in w]
