"""C15 — augmented sub-tasks and options preserve the base MDP and stop at their goals.
Monitor: boundary recording of augment() and Option.run_on; Option.run_on is wrapped as called by
SemiMarkovDecisionProcess.run_simulations to capture the semi-MDP's own simulations.
Oracle: component-by-component comparison with the base spec / overrides; trajectory checker;
empirical outcome distribution recomputed from the captured simulations; reference sub-task solution."""
import itertools
import math
import random as _random
import numpy as np

from mon.case import Inconclusive
from mon.gen import mdp as G
from mon.ref import mdp as Rf
from mon.probe.wrap import wrap

PROP = "C15"
CASES = {"quick": 500, "thorough": 30000}
CASE_TIMEOUT = 90
REQUIRED = ["augment_calls", "components_compared", "option_runs", "option_runs_returned",
            "semimdp_option_outcomes", "captured_simulations", "primitive_outcomes", "subtask_plans"]
RULE = ("random base MDP specs (gamma in {.5,.9,.99,1}) x subsets of the 7 overridable components (all 128 in "
        "thorough, 10 sampled in quick) x option policies (random stochastic, planned) x initiation/termination "
        "sets (start already terminal included) x step limits around the needed length x simulation counts x "
        "seeds; PlanToSubgoalOption with/without clipping and include_mdp_absorbing_states. distinct = structural "
        "signature; non-trivial = base has >=3 states and gamma<1 or an option run of >=2 steps.")
ASSUMPTIONS = ["trajectory validity of Policy.run_on itself is C14's subject; here only option termination is judged",
               "sub-task planning clause is judged for gamma<1 (well-defined for every sub-task)"]

COMPONENTS = ["initial_state_dist", "actions", "next_state_dist", "reward", "is_absorbing", "state_list", "action_list"]


def _long_option(case, rng):
    """an option that needs MORE THAN A THOUSAND primitive steps (a 1100-1600 cell corridor, step limit above that): it ends at
    its terminal cell after exactly that many steps, with the discounted sum of that many rewards"""
    from msdm.core.semimdp.option import Option
    from msdm.core.semimdp.semimdp import SemiMarkovDecisionProcess
    from msdm.core.mdp import FunctionalPolicy
    from msdm.core.mdp.mdp import MarkovDecisionProcess
    from msdm.core.distributions import DictDistribution
    n = rng.choice([1100, 1300, 1600])
    gamma = rng.choice([1.0, 0.999])
    limit = rng.choice([2000, 5000])

    class Corridor(MarkovDecisionProcess):
        discount_rate = gamma
        def initial_state_dist(self_): return DictDistribution({0: 1.0})
        def actions(self_, s): return ("right", "left")
        def next_state_dist(self_, s, a): return DictDistribution({min(s + 1, n): 1.0}) if a == "right" else DictDistribution({max(s - 1, 0): 1.0})
        def reward(self_, s, a, ns): return -1.0
        def is_absorbing(self_, s): return False

    class Walk(Option):
        def __init__(self_):
            self_.name, self_.max_steps = "walk-to-the-end", limit
            self_.policy = FunctionalPolicy(lambda s: DictDistribution({"right": 1.0}))
        def is_initial(self_, s): return True
        def is_terminal(self_, s): return s == n
    mdp, opt = Corridor(), Walk()
    start = rng.choice([0, 0, 50])
    case.family = "long-option"
    case.params = dict(cells=n, gamma=gamma, max_steps=limit, start=start)
    case.nontrivial = True
    case.sig("long-option", n, gamma, limit, start)
    case.count("options_of_more_than_a_thousand_steps")
    sim = case.call("Option.run_on", opt.run_on, mdp, initial_state=start, rng=_random.Random(0))
    case.count("option_runs")
    if sim is not case.FAIL:
        case.count("option_runs_returned")
        case.check(sim.state[-1] == n and len(list(sim.steps)) - 1 == n - start, "option:does-not-end-at-first-terminal-state",
                   lambda: f"ended at {sim.state[-1]!r} after {len(list(sim.steps)) - 1} steps (terminal cell {n}, {n - start} steps away)")
    semi = SemiMarkovDecisionProcess(mdp=mdp, options=[opt], n_option_simulations=2, seed=rng.choice([0, 7]))
    d = case.call("semi.option-outcomes", semi.next_state_transit_time_reward_dist, start, opt)
    case.count("semimdp_option_outcomes")
    if d is not case.FAIL:
        steps = n - start
        cum = -float(steps) if gamma == 1.0 else -(1 - gamma ** steps) / (1 - gamma)
        got = {k: v for k, v in d.items() if v > 0}
        ok = len(got) == 1 and abs(sum(got.values()) - 1) < 1e-12
        if ok:
            (e_, t_, r_), = got.keys()
            ok = e_ == n and t_ == steps and abs(r_ - cum) <= 1e-9 * abs(cum)
        case.check(ok, "semimdp:outcome-distribution!=empirical-distribution-of-its-simulations",
                   lambda: f"{got!r}; every simulation ends in cell {n} after {steps} steps with return {cum!r}")
    for k in ("augment_calls", "components_compared", "primitive_outcomes", "captured_simulations"):
        case.count(k, 0)


def run_case(case, rng):
    if rng.random() < (0.012 if case.tier == "quick" else 0.002):
        return _long_option(case, rng)
    from msdm.core.semimdp.option import Option, PlanToSubgoalOption, augment
    from msdm.core.semimdp.semimdp import SemiMarkovDecisionProcess
    from msdm.core.mdp import FunctionalPolicy
    from msdm.core.distributions import DictDistribution
    from msdm.core.exceptions import AlgorithmException
    from msdm.algorithms import ValueIteration
    from mon.gen import build as Bd
    from mon.probe import read as Rd

    n_max = 7 if case.tier == "thorough" else 5
    gamma = rng.choice([0.5, 0.9, 0.99, 1.0] * 3 + [0.0, 1e-200])   # end points: the running discount reaches exactly 0
    fam = "proper" if gamma == 1.0 or rng.random() < 0.5 else "any"
    sp = G.random_spec(rng, fam, n_max=n_max, gamma=gamma, min_states=2, allow_implicit=False,
                       reward_sign="neg" if gamma == 1.0 else None,
                       reward_scale=rng.choice([1.0] * 6 + [1e-9, 1e-12]))      # also tiny reward units
    rep = rng.choice(Bd.REPRS)
    if not rep.endswith("explicit"):
        G.restrict_to_closure(sp, rng)
    sp.init = [(s, p) for s, p in sp.init if p > 0]
    mdp = Bd.build(sp, rep, shuffle_rng=rng)
    S = list(mdp.state_list)
    A = list(mdp.action_list)
    if set(S) != set(sp.states):
        raise Inconclusive("state_list differs from closure (C06's subject)")
    case.family = fam
    case.params = dict(rep=rep, gamma=gamma, n=len(S))
    case.sample = dict(spec=sp.describe())
    facts = dict(gamma=gamma, rep=rep)

    if rng.random() < 0.6:
        # a base MDP that was already used (matrix caches filled, possibly planned on) before anything is derived
        case.call("base.arrays", lambda: (mdp.transition_matrix, mdp.reward_matrix, mdp.absorbing_state_vec,
                                           mdp.state_action_reward_matrix, mdp.initial_state_vec))
        if gamma < 1:
            case.call("base.plan", ValueIteration(max_iterations=200).plan_on, mdp)
        case.count("base_caches_prefilled")
    # ================= (a) augment ==================================================================
    ov_init = DictDistribution({S[-1]: 1.0})
    ov_funcs = {
        "initial_state_dist": lambda: ov_init,
        "actions": lambda s: tuple(reversed(sp.acts[s])),
        "next_state_dist": lambda s, a: DictDistribution({S[0]: 1.0}),
        "reward": lambda s, a, ns: sp.reward(s, a, ns) + 1.0,
        "is_absorbing": lambda s: s == S[0],
        "state_list": tuple(reversed(S)),
        "action_list": tuple(reversed(A)),
    }
    subsets = [tuple(c for c, bit in zip(COMPONENTS, bits) if bit) for bits in itertools.product([0, 1], repeat=7)]
    if case.tier != "thorough":
        subsets = rng.sample(subsets, 10) + [(), ("is_absorbing",), ("is_absorbing", "reward", "initial_state_dist")]
    for sub in subsets:
        kw = {c: ov_funcs[c] for c in sub}
        d = case.call("augment", augment, mdp, facts=dict(facts, overridden=list(sub)), **kw)
        case.count("augment_calls")
        if d is case.FAIL:
            continue
        f2 = dict(facts, overridden=list(sub))

        def cmp(name, got, want):
            case.count("components_compared")
            case.check(got == want, f"augment:{name}-differs", lambda: f"overridden={sub!r}: got {got!r} want {want!r}", component=name, **f2)
        dr = case.call("derived.discount_rate", lambda: d.discount_rate, facts=f2)
        if dr is not case.FAIL:
            cmp("discount_rate", dr, gamma)
        sl = case.call("derived.state_list", lambda: tuple(d.state_list), facts=f2)
        al = case.call("derived.action_list", lambda: tuple(d.action_list), facts=f2)
        if sl is not case.FAIL:
            cmp("state_list", sl, tuple(ov_funcs["state_list"]) if "state_list" in sub else tuple(S))
        if al is not case.FAIL:
            cmp("action_list", al, tuple(ov_funcs["action_list"]) if "action_list" in sub else tuple(A))

        def fn(name):
            return ov_funcs[name] if name in sub else getattr(mdp, name)

        def body():
            cmp("initial_state_dist", dict(d.initial_state_dist().items()), dict(fn("initial_state_dist")().items()))
            for s in S:
                cmp("is_absorbing", bool(d.is_absorbing(s)), bool(fn("is_absorbing")(s)))
                acts = tuple(fn("actions")(s))
                cmp("actions", tuple(d.actions(s)), acts)
                for a in acts:
                    want = {k: v for k, v in fn("next_state_dist")(s, a).items()}
                    cmp("next_state_dist", {k: v for k, v in d.next_state_dist(s, a).items()}, want)
                    for ns in want:
                        cmp("reward", d.reward(s, a, ns), fn("reward")(s, a, ns))
        case.call("derived.functions", body, facts=f2)

        # downstream use of the derived MDP: what it enumerates and tabulates is ITS OWN functions (not the base's, and not what
        # the base had memoised before the derivation)
        if rng.random() < 0.5 and hasattr(d, "transition_matrix"):
            def tabulated():
                bad = []
                dS, dA = list(d.state_list), list(d.action_list)
                T_ = np.array(d.transition_matrix)
                for i_, s in enumerate(dS):
                    av = tuple(d.actions(s))
                    for j_, a in enumerate(dA):
                        want_ = np.zeros(len(dS))
                        if a in av:
                            for ns, p in d.next_state_dist(s, a).items():
                                if p > 0 and ns in dS:
                                    want_[dS.index(ns)] += p
                        if not np.allclose(T_[i_, j_], want_, atol=1e-12):
                            bad.append((s, a))
                # reachable_states() of the derived MDP = closure under ITS functions from ITS initial support
                seen_ = [s for s, p in d.initial_state_dist().items() if p > 0]
                front_ = list(seen_)
                while front_:
                    s = front_.pop()
                    if d.is_absorbing(s):
                        continue
                    for a in d.actions(s):
                        for ns, p in d.next_state_dist(s, a).items():
                            if p > 0 and ns not in seen_:
                                seen_.append(ns)
                                front_.append(ns)
                got_ = set(d.reachable_states())
                return bad, got_, set(seen_)
            tb = case.call("derived.transition_matrix / reachable_states", tabulated, facts=f2)
            case.count("derived_models_tabulated")
            if tb is not case.FAIL:
                case.check(not tb[0], "augment:tabulated-transitions-differ-from-the-derived-model's-own-functions",
                           lambda: f"overridden={sub!r}: {tb[0][:3]!r}", **f2)
                init_abs = any(d.is_absorbing(s) for s, p in d.initial_state_dist().items() if p > 0)
                if not init_abs:      # (an absorbing INITIAL state is expanded by reachable_states: C06's recorded finding)
                    case.check(tb[1] == tb[2], "augment:reachable_states-differs-from-the-derived-model's-own-closure",
                               lambda: f"overridden={sub!r}: {sorted(map(repr, tb[1]))} vs {sorted(map(repr, tb[2]))}", **f2)

    # ---- a base MDP that is NOT tabular (plain QuickMDP): the function components and the discount still carry over ----
    if rng.random() < 0.4:
        base2 = Bd.quick(sp, explicit=False, tabular=False)
        fsub = [c for c in COMPONENTS[:5] if rng.random() < 0.4]
        kw = {c: ov_funcs[c] for c in fsub}
        f2 = dict(facts, overridden=list(fsub), base="non-tabular QuickMDP")
        d = case.call("augment(non-tabular base)", augment, base2, facts=f2, **kw)
        case.count("augment_calls_nontabular_base")
        if d is not case.FAIL:
            dr = case.call("derived.discount_rate", lambda: d.discount_rate, facts=f2)
            if dr is not case.FAIL:
                case.count("components_compared")
                case.check(dr == gamma, "augment:discount_rate-differs", f"non-tabular base, overridden={fsub!r}: got {dr!r} want {gamma!r}",
                           component="discount_rate", **f2)

            def body2():
                fn = lambda name: ov_funcs[name] if name in fsub else getattr(base2, name)
                ok = dict(d.initial_state_dist().items()) == dict(fn("initial_state_dist")().items())
                for s_ in S:
                    ok = ok and bool(d.is_absorbing(s_)) == bool(fn("is_absorbing")(s_))
                    acts = tuple(fn("actions")(s_))
                    ok = ok and tuple(d.actions(s_)) == acts
                    for a_ in acts:
                        want = dict(fn("next_state_dist")(s_, a_).items())
                        ok = ok and dict(d.next_state_dist(s_, a_).items()) == want
                        for ns_ in want:
                            ok = ok and d.reward(s_, a_, ns_) == fn("reward")(s_, a_, ns_)
                case.count("components_compared")
                case.check(ok, "augment:function-component-differs", f"non-tabular base, overridden={fsub!r}", component="functions", **f2)
            case.call("derived.functions(non-tabular base)", body2, facts=f2)

    # ================= (b) sub-goal option plans with the base discount ================================
    nonabs = [s for s in S if s not in sp.flag]
    if gamma < 1 and len(nonabs) >= 1:
        subgoals = rng.sample(S, rng.randint(1, max(1, len(S) // 2)))
        inits = [s for s in S if s not in subgoals] or [S[0]]
        inits = rng.sample(inits, rng.randint(1, len(inits)))
        clip = rng.choice([float("inf"), -1.0, 0.0, 0.5, float("-inf")])
        inc = rng.random() < 0.5
        from mon import defaults as Dflt
        okw, _om = Dflt.rely_on_defaults(case, rng, "PlanToSubgoalOption", dict(include_mdp_absorbing_states=inc, name="sg",
                                                                               max_nonterminal_pseudoreward=clip))
        extra_terminal = [s_ for s_ in S if s_ not in subgoals]
        OptCls = PlanToSubgoalOption
        door = None
        if extra_terminal and rng.random() < 0.3:
            door = rng.choice(extra_terminal)

            class Doorway(PlanToSubgoalOption):          # also stops at one more state: the public hook is_terminal says so
                def is_terminal(self_, s_):
                    return s_ == door or PlanToSubgoalOption.is_terminal(self_, s_)
            OptCls = Doorway
            case.count("option_subclasses_overriding_is_terminal")
        opt = OptCls(mdp=mdp, initial_states=inits, subgoals=subgoals,
                     planner=ValueIteration(max_residual=1e-10, max_iterations=3000), **okw)
        Dflt.in_force(case, "PlanToSubgoalOption", opt, passed=okw)
        f3 = dict(facts, clip=clip, include_abs=inc)
        st = case.call("sub_task", lambda: opt.sub_task, facts=f3)
        if st is not case.FAIL and door is not None:
            # the sub-task ends exactly where the option says it is terminal
            bad_t = [s_ for s_ in S if bool(st.is_absorbing(s_)) != bool(opt.is_terminal(s_) or (inc and s_ in sp.flag))]
            case.check(not bad_t, "subtask:absorbing-states-differ-from-the-option's-is_terminal",
                       lambda: f"{bad_t!r} (option also stops at {door!r})", component="is_absorbing", **f3)
            st = case.FAIL          # (the reference sub-task below knows nothing of the extra terminal state)
        if st is not case.FAIL:
            case.check(st.discount_rate == gamma, "subtask:discount_rate-differs",
                       f"sub_task.discount_rate={st.discount_rate!r} base={gamma!r}", component="discount_rate", **f3)
            # the sub-task's reward function itself: base reward into a sub-goal, min(base, cap) elsewhere
            def rcmp():
                bad_ = []
                for s_ in S:
                    for a_ in sp.acts[s_]:
                        for t_, q_ in sp.P[(s_, a_)]:
                            if q_ > 0:
                                want_ = sp.reward(s_, a_, t_) if t_ in subgoals else min(sp.reward(s_, a_, t_), clip)
                                got_ = st.reward(s_, a_, t_)
                                if not (got_ == want_):
                                    bad_.append((s_, a_, t_, got_, want_))
                return bad_
            bad_r = case.call("sub_task.reward", rcmp, facts=f3)
            if bad_r is not case.FAIL:
                case.count("components_compared")
                case.check(not bad_r, "subtask:reward-differs-from-clipped-base-reward", lambda: f"{bad_r[:2]!r} cap={clip!r}", component="reward", **f3)
            pr = case.call("planning_result", lambda: opt.planning_result, facts=f3) if clip != float("-inf") else case.FAIL
            case.count("subtask_plans")
            if pr is not case.FAIL:
                import copy
                sp2 = copy.deepcopy(sp)
                sp2.flag = set(subgoals) | (set(sp.flag) if inc else set())
                for (s, a, t), r in list(sp2.R.items()):
                    if t not in subgoals and r > clip:
                        sp2.R[(s, a, t)] = clip
                sp2.init = [(s, 1.0 / len(inits)) for s in inits]
                arr2 = Rf.Arr(sp2, states=S, actions=A)
                sol2 = Rf.solve(arr2, gamma, arr2.absorbing.copy())
                if sol2.ok and bool(pr.converged):
                    V = Rd.vec(pr.state_value, S)
                    B = 1e-10 / (1 - gamma) + 1e-9 * sol2.scale
                    bad = [(repr(S[i]), float(V[i]), float(sol2.V[i])) for i in range(len(S)) if abs(V[i] - sol2.V[i]) > B]
                    case.check(not bad, "subtask:planning-result-differs-from-reference-subtask-solution",
                               lambda: f"{bad[:3]!r} (state, planned, reference with base gamma={gamma})", component="planning", **f3)

    # ================= (c) option execution ================================================================
    class SimpleOption(Option):
        def __init__(self, name, policy, terminal, initial, max_steps):
            self.name = name
            self.policy = policy
            self.terminal = set(terminal)
            self.initial = set(initial)
            self.max_steps = max_steps

        def is_terminal(self, s):
            return s in self.terminal

        def is_initial(self, s):
            return s in self.initial

        def __hash__(self):
            return hash(self.name)

        def __eq__(self, other):
            return isinstance(other, SimpleOption) and self.name == other.name

    pol = G.random_policy(rng, sp)
    fpol = FunctionalPolicy(lambda s: DictDistribution(pol[s]))
    terminal = rng.sample(S, rng.randint(1, max(1, len(S) // 2)))
    initial = rng.sample(S, rng.randint(1, len(S)))
    max_steps = rng.choice([1, 2, 3, 5, 50, 50])
    opt = SimpleOption("opt-a", fpol, terminal, initial, max_steps)

    def check_traj(sim, start, o, label):
        states = sim.state
        case.check(states[0] == start, f"{label}:does-not-start-at-given-state", f"{states[0]!r} vs {start!r}")
        steps = list(sim.steps)
        nsteps = len(steps) - 1
        ok = True
        for k in range(nsteps):
            st = steps[k]
            s, a, ns, r = st["state"], st["action"], st["next_state"], st["reward"]
            if not (pol[s].get(a, 0) > 0 and sp.succ(s, a).get(ns, 0) > 0 and r == sp.reward(s, a, ns)
                    and steps[k + 1]["state"] == ns):
                ok = False
        case.check(ok, f"{label}:invalid-step", lambda: f"{[dict(x) for x in steps]!r}")
        early = [s for s in states[:-1] if o.is_terminal(s)]
        case.check(not early, f"{label}:continued-past-a-terminal-state", lambda: f"states {states!r} terminal {o.terminal!r}")
        case.check(o.is_terminal(states[-1]), f"{label}:returned-without-reaching-a-terminal-state",
                   lambda: f"states {states!r} terminal {o.terminal!r} max_steps={o.max_steps}")
        return nsteps

    # sometimes the option runs on a view of the base MDP in which one non-terminal state offers NO action (a dead end,
    # as in msdm's own DeadEndBandit) although its transitions are defined and the option's policy acts there: the
    # option must walk on to one of ITS terminal states (or hit its step limit), not stop there silently
    run_mdp = mdp
    dead_cands = [s_ for s_ in S if s_ not in terminal]
    if dead_cands and rng.random() < 0.3:
        dead = rng.choice(dead_cands)

        class _DeadEndView(Bd.SpecMDP):
            def actions(self, s_):
                return () if s_ == dead else Bd.SpecMDP.actions(self, s_)
        run_mdp = _DeadEndView(sp)
        case.count("option_runs_on_dead_end_view")
    if rng.random() < 0.3:
        # the SAME option object is first executed on another base MDP (same labels, other rewards and a reversed
        # successor choice): nothing of that execution may stick to the option
        import copy as _copy
        sib = _copy.deepcopy(sp)
        for k_ in sib.R:
            sib.R[k_] = sib.R[k_] + 7.0
        try:
            opt.run_on(Bd.SpecMDP(sib), initial_state=rng.choice(S), rng=_random.Random(1))
        except AlgorithmException:
            pass
        except BaseException as e:
            if type(e).__name__ == "CaseTimeout":
                raise
            case.fail("exception:Option.run_on(other base MDP first)", f"{type(e).__name__}: {e}")
        case.count("options_reused_across_base_mdps")
    for start in rng.sample(S, min(len(S), 3)):
        seed = rng.randrange(2 ** 31)
        case.count("option_runs")
        try:
            sim = opt.run_on(run_mdp, initial_state=start, rng=_random.Random(seed))
            raised = False
        except AlgorithmException:
            raised = True
        except BaseException as e:
            if type(e).__name__ == "CaseTimeout":
                raise
            case.fail("exception:Option.run_on", f"{type(e).__name__}: {e}")
            continue
        if not raised:
            case.count("option_runs_returned")
            n = check_traj(sim, start, opt, "option")
            case.check(n + 1 < max_steps, "option:returned-although-step-limit-reached", f"steps={n} max_steps={max_steps}")
            if n >= 2:
                case.nontrivial = True
        else:
            case.count("option_runs_raised")
            big = SimpleOption("opt-big", fpol, terminal, initial, 400)
            try:
                sim2 = big.run_on(run_mdp, initial_state=start, rng=_random.Random(seed))
                n2 = len(sim2.steps) - 1
                case.check(n2 >= max_steps - 1, "option:raised-although-goal-reachable-within-limit",
                           f"same seed with a larger cap needs {n2} steps; max_steps={max_steps}")
            except AlgorithmException:
                pass

    # ================= (d) semi-MDP ========================================================================
    nsim = rng.choice([1, 3, 10])
    sseed = rng.choice([0, 1, rng.randrange(2 ** 31), None])     # None: the object draws its own seed once and keeps it
    inc_actions = rng.random() < 0.5
    from mon import defaults as Dflt
    skw, _om = Dflt.rely_on_defaults(case, rng, "SemiMarkovDecisionProcess", dict(include_mdp_actions=inc_actions, seed=sseed))
    semi = SemiMarkovDecisionProcess(mdp=mdp, options=[opt], n_option_simulations=nsim, **skw)
    Dflt.in_force(case, "SemiMarkovDecisionProcess", semi, passed=dict(skw, seed=0) if sseed is None else skw)
    # two UNNAMED sub-goal options with different sub-goals in one semi-MDP, queried from the same state
    if gamma < 1 and len(S) >= 3:
        g1, g2 = rng.sample(S, 2)
        mk = lambda g: PlanToSubgoalOption(mdp=mdp, initial_states=list(S), subgoals=[g],
                                           planner=ValueIteration(max_iterations=300), max_steps=60)
        o1, o2 = mk(g1), mk(g2)
        semi2 = SemiMarkovDecisionProcess(mdp=mdp, options=[o1, o2], n_option_simulations=3, seed=sseed)
        s0 = rng.choice([s for s in S if s not in (g1, g2)] or S)
        for o_, g_ in ((o1, g1), (o2, g2), (o1, g1)):
            cap2 = []
            with wrap(Option, "run_on", after=lambda a, k, out, exc: cap2.append((out, exc))) as w2:
                try:
                    d_ = semi2.next_state_transit_time_reward_dist(s0, o_)
                except AlgorithmException:
                    d_ = None
                except BaseException as e:
                    if type(e).__name__ == "CaseTimeout":
                        raise
                    case.fail("exception:semimdp.unnamed-options", f"{type(e).__name__}: {e}")
                    d_ = None
            case.count("unnamed_option_queries")
            if d_ is not None:
                ends = {k[0] for k, p in d_.items() if p > 0}
                case.check(ends <= {g_}, "semimdp:option-outcome-ends-outside-its-own-terminal-set",
                           lambda: f"option to {g_!r} from {s0!r}: end states {ends!r}")
                case.check(w2.calls == 3, "semimdp:outcome-distribution-not-from-its-own-simulations",
                           f"{w2.calls} simulations ran for this query (3 configured)")
    for s in rng.sample(S, min(len(S), 3)):
        acts = case.call("semi.actions", semi.actions, s, facts=dict(include_mdp_actions=inc_actions,
                                                                   actions_type=type(sp.acts[s]).__name__))
        if acts is not case.FAIL:
            want = (list(sp.acts[s]) if inc_actions else []) + ([opt] if s in opt.initial else [])
            case.check(list(acts) == want, "semimdp:actions-wrong", f"{acts!r} vs {want!r}")
        # primitive action
        a = rng.choice(sp.acts[s])
        d = case.call("semi.primitive", semi.next_state_transit_time_reward_dist, s, a)
        case.count("primitive_outcomes")
        if d is not case.FAIL:
            want = {}
            for ns, p in sp.succ(s, a).items():
                k = (ns, 1, sp.reward(s, a, ns))
                want[k] = want.get(k, 0.0) + p
            got = {k: v for k, v in d.items() if v > 0}
            case.check(set(got) == set(want) and all(abs(got[k] - want[k]) < 1e-12 for k in got),
                       "semimdp:primitive-action-outcomes-wrong", lambda: f"{got!r} vs {want!r}")
        # option
        captured = []

        def after(args, kwargs, out, exc):
            captured.append((out, exc))
        with wrap(Option, "run_on", after=after) as w:
            try:
                dist = semi.next_state_transit_time_reward_dist(s, opt)
                raised = False
            except AlgorithmException:
                raised = True
            except BaseException as e:
                if type(e).__name__ == "CaseTimeout":
                    raise
                case.fail("exception:semimdp.option-outcomes", f"{type(e).__name__}: {e}")
                continue
        case.count("captured_simulations", w.calls)
        if raised:
            case.count("semimdp_option_raised")
            continue
        case.count("semimdp_option_outcomes")
        case.check(w.calls == nsim, "semimdp:number-of-simulations-differs", f"{w.calls} vs {nsim}")
        runit = max([abs(v_) for v_ in sp.R.values()] + [1e-300])      # the model's reward unit (rewards may be ~1e-12)
        emp = {}
        for sim, exc in captured:
            n = check_traj(sim, s, opt, "semimdp-sim")
            cum = math.fsum((gamma ** k) * st["reward"] for k, st in enumerate(list(sim.steps)[:-1]))
            key = (sim.state[-1], n)
            emp.setdefault(key, []).append(cum)
        got = {k: v for k, v in dist.items()}
        case.check(abs(math.fsum(got.values()) - 1.0) < 1e-12, "semimdp:outcome-distribution-not-normalised", repr(got))
        # match outcomes
        remaining = {k: list(v) for k, v in emp.items()}
        ok = True
        for (ns, t, cr), p in got.items():
            cnt = round(p * nsim)
            lst = remaining.get((ns, t), [])
            # (returns that are equal up to summation order may be reported under separate float keys: each reported
            # outcome takes its `cnt` nearest still-unmatched simulations within the tolerance)
            hits = sorted([x for x in lst if abs(x - cr) <= 1e-9 * max(abs(cr), abs(x)) + 1e-12 * runit],
                          key=lambda x: abs(x - cr))[:cnt]
            if abs(p * nsim - cnt) > 1e-9 or len(hits) != cnt:
                ok = False
                break
            for x in hits:
                lst.remove(x)
        if any(remaining.values()):
            ok = False
        case.check(ok, "semimdp:outcome-distribution!=empirical-distribution-of-own-simulations",
                   lambda: f"reported {got!r} ; recomputed (end,steps)->returns {emp!r} with base gamma={gamma}", gamma=gamma)
        # marginals / expectation (same seed => same simulations)
        m1 = case.call("semi.next_state_transit_time_dist", semi.next_state_transit_time_dist, s, opt)
        m2 = case.call("semi.next_state_dist", semi.next_state_dist, s, opt)
        ecr = case.call("semi.expected_cumulative_reward", semi.expected_cumulative_reward, s, opt)
        if m1 is not case.FAIL:
            want = {}
            for (ns, t, cr), p in got.items():
                want[(ns, t)] = want.get((ns, t), 0.0) + p
            g1 = dict(m1.items())
            case.check(set(g1) == set(want) and all(abs(g1[k] - want[k]) < 1e-12 for k in want), "semimdp:transit-time-marginal-inconsistent", "")
        if m2 is not case.FAIL:
            want = {}
            for (ns, t, cr), p in got.items():
                want[ns] = want.get(ns, 0.0) + p
            g2 = dict(m2.items())
            case.check(set(g2) == set(want) and all(abs(g2[k] - want[k]) < 1e-12 for k in want), "semimdp:next-state-marginal-inconsistent", "")
        if ecr is not case.FAIL:
            want = math.fsum(p * cr for (ns, t, cr), p in got.items())
            case.check(abs(ecr - want) <= 1e-9 * abs(want) + 1e-12 * runit, "semimdp:expected_cumulative_reward-inconsistent", f"{ecr!r} vs {want!r}")
    if len(S) >= 3 and gamma < 1:
        case.nontrivial = True
    case.sig(fam, rep, len(S), len(A), gamma, max_steps, nsim, len(terminal), len(initial), inc_actions)
