"""C07 — POMDP belief updates follow Bayes' rule and the belief MDP is consistent.
Monitor: boundary recording of state_estimator(_vec), predictive_observation_dist/_vec,
observation_matrix, BeliefMDP.*, ValueBasedTabularPOMDPPolicy.next_agentstate.
Oracle: dictionary Bayes filter on the spec (mon.ref.bayes)."""
import math
import numpy as np

from mon.gen import pomdp as GP
from mon.ref import bayes as B

PROP = "C07"
CASES = {"quick": 800, "thorough": 20000}
CASE_TIMEOUT = 60
REQUIRED = ["filter_updates_checked", "impossible_observations_checked", "vec_updates_checked",
            "predictive_checked", "beliefmdp_transitions_checked", "observation_matrix_entries",
            "next_agentstate_checked"]
RULE = ("random tabular POMDPs (2-4 states, 1-3 actions, 1-3 observations, action-dependent kernels with "
        "explicit/omitted zero entries, live/zero-loop absorbing states; special: fully observable, blind, "
        "deterministic; a never-emitted observation listed with probability 0) x beliefs (vertices, edges, "
        "interior rationals, beliefs reached by 1-4 filter steps, explicit zero components) x ALL (action, "
        "observation) pairs incl. impossible ones. distinct = structural signature; non-trivial = >=2 states "
        "with a stochastic transition or a non-deterministic observation kernel.")
ASSUMPTIONS = ["reference = 40-line dictionary Bayes filter (mon/ref/bayes.py), float64 with fsum, 1e-12"]


def _close(a, b, tol=1e-12):
    return abs(a - b) <= tol * max(1.0, abs(a), abs(b))


def run_case(case, rng):
    from msdm.core.pomdp import BeliefMDP
    from msdm.core.pomdp.tabularpomdp import Belief
    from msdm.core.pomdp.alphavectorpolicy import AlphaVectorPolicy
    from msdm.core.distributions import DictDistribution
    from mon.gen import build as Bd

    sp = GP.random_pomdp(rng, allow_ghost_obs=True, tiny_probs=True)
    explicit = rng.random() < 0.5
    pomdp = Bd.build_pomdp(sp, explicit=explicit)
    S = case.call("state_list", lambda: list(pomdp.state_list))
    A = case.call("action_list", lambda: list(pomdp.action_list))
    if S is case.FAIL or A is case.FAIL:
        return
    if set(S) != set(sp.states):
        from mon.case import Inconclusive
        raise Inconclusive("state_list differs from closure (C06's subject)")
    facts = dict(special=sp.meta.get("special"), ghost_obs=bool(sp.meta.get("ghost_obs")))
    OL = case.call("observation_list", lambda: list(pomdp.observation_list), facts=facts)
    if OL is case.FAIL:
        return
    emitted = GP.emitted_observations(sp)
    case.check(set(OL) == set(emitted) and len(OL) == len(set(OL)), "observation_list!=emitted-observations",
               f"{OL!r} vs {emitted!r}", **facts)
    OM = case.call("observation_matrix", lambda: np.array(pomdp.observation_matrix), facts=facts)
    case.family = str(sp.meta.get("special"))
    case.params = dict(n=len(S), actions=len(A), obs=len(OL), gamma=sp.gamma, explicit=explicit,
                       ghost_obs=bool(sp.meta.get("ghost_obs")))
    stoch = any(len(sp.succ(s, a)) >= 2 for s in S for a in A) or \
        any(sum(p > 0 for _, p in lst) >= 2 for lst in sp.O.values())
    case.nontrivial = len(S) >= 2 and stoch
    case.sig(len(S), len(A), len(OL), sp.meta.get("special"), tuple(sp.meta.get("abs_kinds", [])), explicit,
             sum(len(v) for v in sp.P.values()), sum(len(v) for v in sp.O.values()))
    case.sample = dict(spec=sp.describe(), observations=[repr(o) for o in sp.obs],
                       kernel_head=[(repr(k), v) for k, v in list(sp.O.items())[:4]])
    if OM is case.FAIL:
        return
    for ai, a in enumerate(A):
        for ni, ns in enumerate(S):
            for oi, o in enumerate(OL):
                case.count("observation_matrix_entries")
                case.check(OM[ai, ni, oi] == GP.obs_prob(sp, a, ns, o), "observation_matrix-entry-wrong",
                           f"[{a!r},{ns!r},{o!r}] = {OM[ai, ni, oi]!r}", **facts)

    # ---- beliefs -------------------------------------------------------------------------------------
    beliefs = []
    for s in S:
        beliefs.append({s: 1.0})
    if len(S) >= 2:
        s1, s2 = rng.sample(S, 2)
        beliefs.append({s1: 0.5, s2: 0.5})
        beliefs.append({s1: 0.25, s2: 0.75, **({S[0]: 0.0} if S[0] not in (s1, s2) else {})})
    probs = GP.G.rand_probs(rng, len(S))
    beliefs.append(dict(zip(S, probs)))
    beliefs.append({s: p for s, p in sp.init if p > 0})
    # beliefs reached by filtering
    b = {s: p for s, p in sp.init if p > 0}
    for _ in range(rng.randint(1, 4)):
        a = rng.choice(A)
        cand = [o for o in emitted if B.posterior(sp, b, a, o)[1] > 0]
        if not cand:
            break
        b, _ = B.posterior(sp, b, a, rng.choice(cand))
        beliefs.append(dict(b))
    beliefs = rng.sample(beliefs, min(len(beliefs), 6 if case.tier == "quick" else 10))
    all_obs = list(emitted) + ["NEVER-EMITTED"] + (["GHOST-OBS"] if sp.meta.get("ghost_obs") else [])
    bm = BeliefMDP(pomdp)
    avp = AlphaVectorPolicy(pomdp, np.zeros((1, len(S))))
    # a SECOND belief MDP alive, over a sibling POMDP with the same labels and another observation kernel (each row's
    # probabilities rotated among its observations); it is asked about every belief / action just before the judged one
    bm_other = None
    if rng.random() < 0.35:
        import copy as _copy
        sp_o = _copy.deepcopy(sp)
        for k_, row_ in list(sp_o.O.items()):
            if len(row_) >= 2:
                ps_ = [p_ for _, p_ in row_]
                sp_o.O[k_] = [(o_, p_) for (o_, _), p_ in zip(row_, ps_[1:] + ps_[:1])]
        try:
            bm_other = BeliefMDP(Bd.build_pomdp(sp_o, explicit=explicit))
            case.count("belief_mdps_alive_side_by_side")
        except BaseException as e_:
            if type(e_).__name__ == "CaseTimeout" or isinstance(e_, (KeyboardInterrupt, SystemExit)):
                raise
            bm_other = None

    for b in beliefs:
        bd = DictDistribution(dict(b))
        bvec = np.array([b.get(s, 0.0) for s in S])
        for ai, a in enumerate(A):
            # ---- predictive observation distribution
            pref = B.predictive_obs(sp, b, a, emitted)
            pod = case.call("predictive_observation_dist", pomdp.predictive_observation_dist, bd, a, facts=facts)
            case.count("predictive_checked")
            if pod is not case.FAIL:
                g = dict(pod.items())
                ok = all(_close(g.get(o, 0.0), pref[o]) for o in emitted) and not (set(g) - set(emitted))
                case.check(ok, "predictive_observation_dist-not-exact-marginal", lambda: f"b={b!r} a={a!r}: {g!r} want {pref!r}", **facts)
                case.check(_close(math.fsum(g.values()), 1.0), "predictive_observation_dist-not-normalised", repr(g), **facts)
            pov = case.call("predictive_observation_vec", pomdp.predictive_observation_vec, bvec, ai, facts=facts)
            if pov is not case.FAIL:
                ok = all(_close(pov[OL.index(o)], pref[o]) for o in emitted)
                case.check(ok and _close(float(np.sum(pov)), 1.0), "predictive_observation_vec-differs",
                           lambda: f"b={b!r} a={a!r}: {pov.tolist()!r} want {pref!r}", **facts)
            # ---- filter, all observations incl. impossible ones
            for o in all_obs:
                post, po = B.posterior(sp, b, a, o)
                est = case.call("state_estimator", pomdp.state_estimator, bd, a, o, facts=facts)
                if est is case.FAIL:
                    continue
                g = dict(est.items())
                if po == 0:
                    case.count("impossible_observations_checked")
                    case.check(len(g) == 0 or all(p == 0 for p in g.values()), "posterior-not-empty-for-impossible-observation",
                               lambda: f"b={b!r} a={a!r} o={o!r}: {g!r}", **facts)
                else:
                    case.count("filter_updates_checked")
                    keys = set(g) | set(post)
                    ok = all(_close(g.get(k, 0.0), post.get(k, 0.0)) for k in keys)
                    case.check(ok, "posterior-is-not-bayes-posterior", lambda: f"b={b!r} a={a!r} o={o!r}: {g!r} want {post!r}", **facts)
                    case.check(_close(math.fsum(g.values()), 1.0), "posterior-not-normalised", repr(g), **facts)
                if o in OL:
                    case.count("vec_updates_checked")
                    ev = case.call("state_estimator_vec", pomdp.state_estimator_vec, bvec, ai, OL.index(o), facts=facts)
                    if ev is not case.FAIL:
                        want = np.array([post.get(s, 0.0) for s in S])
                        case.check(np.allclose(ev, want, rtol=1e-12, atol=1e-12), "state_estimator_vec-differs-from-bayes",
                                   lambda: f"b={b!r} a={a!r} o={o!r}: {ev.tolist()!r} want {want.tolist()!r}", **facts)
                        case.check(np.allclose(ev, [g.get(s, 0.0) for s in S], rtol=1e-12, atol=1e-12),
                                   "dict-and-vec-estimators-disagree", lambda: f"{ev.tolist()!r} vs {g!r}", **facts)
                    if po > 0:
                        nag = case.call("next_agentstate", avp.next_agentstate, Belief(tuple(S), tuple(bvec)), a, o, facts=facts)
                        case.count("next_agentstate_checked")
                        if nag is not case.FAIL:
                            ok = tuple(nag.states) == tuple(S) and np.allclose(nag.probs, [post.get(s, 0.0) for s in S], rtol=1e-12, atol=1e-12)
                            case.check(ok, "next_agentstate-is-not-the-posterior-belief", lambda: f"{nag!r}", **facts)
            # ---- belief MDP
            bel = Belief(tuple(S), tuple(bvec))
            if bm_other is not None:
                try:
                    bm_other.next_state_dist(bel, a)
                    bm_other.reward(bel, a, None)
                except BaseException as e_:
                    if type(e_).__name__ == "CaseTimeout" or isinstance(e_, (KeyboardInterrupt, SystemExit)):
                        raise
            nsd = case.call("BeliefMDP.next_state_dist", bm.next_state_dist, bel, a, facts=facts)
            case.count("beliefmdp_transitions_checked")
            if nsd is not case.FAIL:
                items = [(nb, p) for nb, p in nsd.items()]
                case.check(_close(math.fsum(p for _, p in items), 1.0), "beliefmdp-transition-not-normalised", repr(items), **facts)
                mean = np.zeros(len(S))
                okb = True
                for nb, p in items:
                    if not (tuple(nb.states) == tuple(S) and _close(float(np.sum(nb.probs)), 1.0) and min(nb.probs) >= 0):
                        okb = False
                    mean += p * np.array(nb.probs)
                case.check(okb, "beliefmdp-successor-is-not-a-normalised-belief-over-state_list", repr(items), **facts)
                pred = B.predict_state(sp, b, a)
                want = np.array([pred.get(s, 0.0) for s in S])
                case.check(np.allclose(mean, want, rtol=1e-12, atol=1e-12), "beliefmdp-mean-successor!=state-prediction",
                           lambda: f"b={b!r} a={a!r}: {mean.tolist()!r} want {want.tolist()!r}", **facts)
                # every successor is the posterior of some observation with the right total probability
                # (posteriors are matched by tolerance, never by rounded keys)
                # Matching is by connected clusters of mutually close vectors over BOTH sides (closeness is not transitive, so a greedy
                # grouping of posteriors that lie ~1e-13 apart depends on the order they are met in): per cluster, equal mass.
                groups = []          # [vector, probability] reference posteriors
                for o in emitted:
                    post, po = B.posterior(sp, b, a, o)
                    if po > 0:
                        groups.append([np.array([post.get(s, 0.0) for s in S]), po])
                got = [[np.array(nb.probs, dtype=float), p] for nb, p in items if p > 0]
                nodes_ = [(v_, p_, 0) for v_, p_ in groups] + [(v_, p_, 1) for v_, p_ in got]
                parent_ = list(range(len(nodes_)))

                def find_(x):
                    while parent_[x] != x:
                        parent_[x] = parent_[parent_[x]]
                        x = parent_[x]
                    return x
                for x in range(len(nodes_)):
                    for y in range(x + 1, len(nodes_)):
                        if np.allclose(nodes_[x][0], nodes_[y][0], rtol=1e-9, atol=1e-13):
                            parent_[find_(x)] = find_(y)
                mass_ = {}
                for x, (v_, p_, side_) in enumerate(nodes_):
                    m_ = mass_.setdefault(find_(x), [0.0, 0.0])
                    m_[side_] += p_
                ok = all(_close(m_[0], m_[1], 1e-10) for m_ in mass_.values())
                case.check(ok, "beliefmdp-successors!=posteriors-weighted-by-observation-probability",
                           lambda: f"b={b!r} a={a!r}: {[(v.tolist(), p) for v, p in got]!r} want {[(v.tolist(), p) for v, p in groups]!r}", **facts)
            r = case.call("BeliefMDP.reward", bm.reward, bel, a, None, facts=facts)
            if r is not case.FAIL:
                case.check(_close(float(r), B.expected_reward(sp, b, a)), "beliefmdp-reward!=belief-expected-reward",
                           lambda: f"b={b!r} a={a!r}: {r!r} want {B.expected_reward(sp, b, a)!r}", **facts)
        ab = case.call("BeliefMDP.is_absorbing", bm.is_absorbing, Belief(tuple(S), tuple(bvec)))
        if ab is not case.FAIL:
            want = all((p == 0) or (s in sp.flag) for s, p in zip(S, bvec))
            case.check(bool(ab) == want, "beliefmdp-is_absorbing-wrong", f"b={b!r}: {ab!r} want {want!r}", **facts)
    # ---- one preallocated belief buffer, overwritten in place between calls (belief trackers, sweeps over points) ----
    if len(beliefs) >= 2:
        buf = np.zeros(len(S))
        for ai, a in enumerate(A):
            for b in beliefs[:4]:
                buf[:] = [b.get(s, 0.0) for s in S]
                pref = B.predictive_obs(sp, b, a, emitted)
                pov = case.call("predictive_observation_vec(buffer)", pomdp.predictive_observation_vec, buf, ai, facts=facts)
                if pov is not case.FAIL:
                    case.check(all(_close(pov[OL.index(o)], pref[o]) for o in emitted),
                               "predictive_observation_vec-stale-after-in-place-belief-update", lambda: f"b={b!r} a={a!r}", **facts)
                for o in emitted:
                    post, po = B.posterior(sp, b, a, o)
                    ev = case.call("state_estimator_vec(buffer)", pomdp.state_estimator_vec, buf, ai, OL.index(o), facts=facts)
                    case.count("buffer_updates_checked")
                    if ev is not case.FAIL:
                        want = np.array([post.get(s, 0.0) for s in S])
                        case.check(np.allclose(ev, want, rtol=1e-12, atol=1e-12),
                                   "state_estimator_vec-stale-after-in-place-belief-update",
                                   lambda: f"b={b!r} a={a!r} o={o!r}: {np.asarray(ev).tolist()!r} want {want.tolist()!r}", **facts)
    # ---- the same for the dictionary versions: ONE belief dictionary revised in place between calls -----------------------
    if len(beliefs) >= 2:
        from msdm.core.distributions import DictDistribution as _DD
        live = _DD({})
        for a in A[:2]:
            for b in beliefs[:4]:
                live.clear()
                live.update({s_: p_ for s_, p_ in b.items()})
                pref = B.predictive_obs(sp, b, a, emitted)
                pod = case.call("predictive_observation_dist(same dict, revised in place)", pomdp.predictive_observation_dist, live, a, facts=facts)
                case.count("dict_beliefs_revised_in_place")
                if pod is not case.FAIL:
                    g_ = dict(pod.items())
                    case.check(all(_close(float(g_.get(o, 0.0)), pref[o]) for o in emitted),
                               "predictive_observation_dist-stale-after-in-place-belief-update", lambda: f"b={b!r} a={a!r}: {g_!r} want {pref!r}", **facts)
                for o in emitted[:2]:
                    post, po = B.posterior(sp, b, a, o)
                    ed = case.call("state_estimator(same dict, revised in place)", pomdp.state_estimator, live, a, o, facts=facts)
                    if ed is not case.FAIL:
                        g_ = {s_: float(p_) for s_, p_ in ed.items() if p_ > 0}
                        w_ = {s_: p_ for s_, p_ in post.items() if p_ > 0}
                        case.check(set(g_) == set(w_) and all(_close(g_[k_], w_[k_]) for k_ in w_),
                                   "state_estimator-stale-after-in-place-belief-update", lambda: f"b={b!r} a={a!r} o={o!r}: {g_!r} want {w_!r}", **facts)
    # ---- beliefs at the very edge of the simplex: a non-absorbing component too small to change a float sum ----------
    ab_states = [s for s in S if s in sp.flag]
    nab_states = [s for s in S if s not in sp.flag]
    if ab_states and nab_states:
        for tiny in (1e-17, 2.7e-17, 1e-300, 5e-324):
            probs = [1.0 if s == ab_states[0] else (tiny if s == nab_states[0] else 0.0) for s in S]
            ab = case.call("BeliefMDP.is_absorbing(edge)", bm.is_absorbing, Belief(tuple(S), tuple(probs)))
            case.count("edge_beliefs_checked")
            if ab is not case.FAIL:
                case.check(not bool(ab), "beliefmdp-is_absorbing-true-with-mass-on-a-non-absorbing-state",
                           f"mass {tiny!r} on {nab_states[0]!r}", **facts)
    # ---- vertex beliefs written as int arrays, Python lists or boolean masks -------------------------------------------
    for i_, s_ in enumerate(S[:3]):
        onehot = [1 if j_ == i_ else 0 for j_ in range(len(S))]
        for rep_name, bv in (("int-array", np.array(onehot)), ("list", onehot), ("bool-mask", np.array(onehot, dtype=bool))):
            for ai, a in enumerate(A[:2]):
                for o in emitted[:2]:
                    post, po = B.posterior(sp, {s_: 1.0}, a, o)
                    ev = case.call("state_estimator_vec(non-float belief)", pomdp.state_estimator_vec, bv, ai, OL.index(o),
                                   facts=dict(facts, belief_type=rep_name))
                    case.count("nonfloat_belief_updates_checked")
                    if ev is not case.FAIL:
                        want = np.array([post.get(x, 0.0) for x in S])
                        case.check(np.allclose(np.asarray(ev, dtype=float), want, rtol=1e-12, atol=1e-12),
                                   "state_estimator_vec-wrong-for-non-float-belief-vector",
                                   lambda: f"{rep_name} vertex {s_!r} a={a!r} o={o!r}: {np.asarray(ev).tolist()!r} want {want.tolist()!r}", **facts)
    b0 = case.call("BeliefMDP.initial_state_dist", lambda: list(bm.initial_state_dist().items()))
    if b0 is not case.FAIL:
        want = [sum(p for s2, p in sp.init if s2 == s and p > 0) for s in S]
        ok = len(b0) == 1 and b0[0][1] == 1 and tuple(b0[0][0].states) == tuple(S) and \
            np.allclose(b0[0][0].probs, want, rtol=0, atol=1e-15)
        case.check(ok, "beliefmdp-initial-belief-wrong", repr(b0))
    case.check(tuple(bm.actions(Belief(tuple(S), tuple([1.0] + [0.0] * (len(S) - 1))))) == tuple(A), "beliefmdp-actions", "")
    case.check(bm.discount_rate == sp.gamma, "beliefmdp-discount", "")



def parent_phase(tier, seed, jobs, tmp, envf):
    """thorough tier: the repository's own test-suite under the ambient 'filter' monitor"""
    if tier != "thorough":
        return [], None
    from mon.probe.ambient import run_ambient
    rec = run_ambient({"filter"}, tmp, envf)
    rec["prop"] = PROP
    return [rec], {"ambient_test_suite": rec["sample"]}
