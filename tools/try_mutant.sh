#!/bin/sh
# tools/try_mutant.sh <patch.diff> "<check ids>" [tier] [seeds]  — apply a seeded change to /repo, run checks, ALWAYS restore /repo.
patch=$(realpath "$1"); ids=$2; tier=${3:-quick}; seeds=${4:-0}
cd "$(dirname "$0")/.."
if [ -n "$(git -C /repo status --porcelain)" ]; then echo "/repo not clean"; exit 3; fi
git -C /repo apply "$patch" || { echo "patch does not apply"; exit 3; }
trap 'git -C /repo checkout -- . ; git -C /repo clean -fdq msdm 2>/dev/null' EXIT INT TERM
caught=0
for id in $ids; do for s in $seeds; do
  out=$(VERIF_SEED=$s ./check $id --tier $tier 2>&1); rc=$?
  nv=$(echo "$out" | grep -c '^VIOLATION')
  echo "MUTANT $(basename $(dirname $patch)) check=$id tier=$tier seed=$s rc=$rc violations=$nv $(echo "$out" | grep 'wall=' | sed 's/.*wall=//')"
  echo "$out" | grep -v '^    {' | grep -A2 '^VIOLATION' | grep '    - ' | sed 's/:.*//' | sort | uniq -c | sort -rn | head -5
  [ $rc -eq 1 ] && caught=1
  [ $rc -eq 2 ] && echo "$out" | grep 'INCONCLUSIVE\|HARNESS' | head -3
done; done
exit $((1 - caught))
