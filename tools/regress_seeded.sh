#!/bin/sh
# tools/regress_seeded.sh [ids...] — development helper: re-run every recorded seeded change against the current checks in a
# scratch worktree of /repo's HEAD (never touches /repo); prints one line per change and a summary.
cd "$(dirname "$0")/.."
wt=/tmp/wt-regress
git -C /repo worktree remove --force $wt 2>/dev/null
git -C /repo worktree add -q --detach $wt HEAD || exit 3
ids=${*:-$(ls seeded | grep -v INDEX)}
missed=""
for id in $ids; do
  prop=$(echo $id | cut -c1-3)
  case $id in C06-A9) prop=C05;; esac      # (recorded as caught by another property's check, see seeded/INDEX.md)
  git -C $wt checkout -q -- . ; git -C $wt clean -fdq msdm 2>/dev/null
  if ! git -C $wt apply "$(pwd)/seeded/$id/patch.diff" 2>/dev/null; then echo "$id: patch does not apply to HEAD"; missed="$missed $id(noapply)"; continue; fi
  out=$(VERIF_REPO=$wt VERIF_SEED=${SEED:-0} ./check $prop --tier quick 2>&1); rc=$?
  echo "$id rc=$rc violating_cases=$(echo "$out" | grep -c '^VIOLATION') $(echo "$out" | grep -v '^    {' | grep '^    - ' | sed 's/: .*//' | sort | uniq -c | sort -rn | head -1)"
  [ $rc -ne 1 ] && missed="$missed $id"
done
git -C /repo worktree remove --force $wt
echo "MISSED:$missed"
