#!/bin/sh
# tools/sweep.sh "<ids>" "<seeds>" [tier] [hashseeds]  — development helper: run checks over several VERIF_SEED / PYTHONHASHSEED
ids=${1:-"C01 C02 C03 C04 C05 C06 C07 C08 C09 C10 C11 C12 C13 C14 C15 C16 C17 C18 C19 C20"}
seeds=${2:-"0 1 2"}
tier=${3:-quick}
hs=${4:-0}
cd "$(dirname "$0")/.."
for id in $ids; do
  [ -f mon/checks/$(echo $id | tr A-Z a-z).py ] || continue
  for h in $hs; do for s in $seeds; do
    out=$(PYTHONHASHSEED=$h VERIF_SEED=$s ./check $id --tier $tier 2>&1); rc=$?
    echo "$id seed=$s hash=$h rc=$rc $(echo "$out" | grep -c '^VIOLATION') violations; $(echo "$out" | grep -c '^KNOWN-FINDING') known; $(echo "$out" | grep 'wall=' | sed 's/.*wall=//')"
    [ $rc -ne 0 ] && echo "$out" | grep -v '^    {' | grep -A3 '^VIOLATION\|INCONCLUSIVE\|HARNESS' | cut -c1-300 | head -12
  done; done
done
