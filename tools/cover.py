"""Development helper: statement/branch coverage of msdm under the quick-tier workloads (in-process, no sharding).
usage: tools/cover.py run <Cnn> <ncases> <datafile>   |   tools/cover.py report <datadir>
Shows which statements of the anchored files no generated case reaches (= blind spots of the workloads)."""
import sys, os, importlib, warnings, glob

def run(prop, n, out):
    import coverage
    cov = coverage.Coverage(data_file=out, branch=True, source=["/repo/msdm"], omit=["*/tests/*"])
    cov.start()
    warnings.simplefilter("ignore")
    import numpy as np
    np.seterr(all="ignore")
    from mon import worker
    mod = importlib.import_module(f"mon.checks.{prop.lower()}")
    if hasattr(mod, "worker_init"):
        mod.worker_init("quick")
    total = mod.CASES["quick"]
    step = max(1, total // n)
    verd = {}
    for i in range(0, total, step):
        rec = worker.run_one(mod, prop, "quick", int(os.environ.get("VERIF_SEED", "0")), i)
        verd[rec["verdict"]] = verd.get(rec["verdict"], 0) + 1
    cov.stop()
    cov.save()
    print(prop, verd)

def report(d):
    import coverage
    cov = coverage.Coverage(data_file=os.path.join(d, "combined"), branch=True)
    cov.combine(glob.glob(os.path.join(d, "C*.cov")), keep=True)
    cov.save()
    cov.report(show_missing=True, skip_empty=True, file=sys.stdout)

if __name__ == "__main__":
    if sys.argv[1] == "run":
        run(sys.argv[2], int(sys.argv[3]), sys.argv[4])
    else:
        report(sys.argv[2])
