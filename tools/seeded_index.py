import json, os
D = {
 "C01-A": ("VI (vectorized): log(action_matrix + tiny) gives unavailable actions a finite penalty (-708)", "a state lacking some action AND optimal values below about -708 (large costs / long undiscounted horizon)", "missed at first -> added reward_scale family (values 1e4..1e5)"),
 "C01-B": ("_unable_to_reach_absorbing via weakly connected components", "gamma = 1 and a trap region that is enterable from the solvable part (not a disconnected island)", "weakly caught at first (1 case) -> added trap_entry family (costly one-way action into the trap)"),
 "C02-A": ("discounted evaluation rebuilds absorbing-state occupancies and drops the initial mass on them", "discounted MDP whose initial distribution puts mass on an absorbing state", "caught as built"),
 "C02-B": ("undiscounted evaluation treats 'cannot reach an absorbing state' as recurrent", "gamma = 1, a zero-reward closed class fed by a paying transient state", "caught as built (after the zero-reward-class policy bias)"),
 "C03-A": ("LAO* DP: log(am + 1e-12) finite penalty for unavailable actions", "state-dependent action sets and values below about -27.6", "weakly caught at first (exceptions only) -> reward_scale family"),
 "C03-B": ("LAO*: absorbing tips skipped in value revision, so an absorbing initial state keeps heuristic(s)", "absorbing state in the initial distribution + heuristic non-zero there", "caught as built"),
 "C04-A": ("LRTDP teardown picks actions by max over q_values (mdp.actions order) instead of the stored shuffled order", "randomize_action_order=True + exact Q tie at termination against an unexplored branch holding an optimistic heuristic value", "missed at first -> deterministic integer-cost tie family with the zero heuristic"),
 "C04-B": ("LRTDP memoises is_absorbing in a dict created in __init__ (survives across plan_on calls)", "the SAME planner object reused on a second MDP over the same labels with a different absorbing set", "missed at first -> planner-reuse workload (warm-up plan_on on a sibling MDP)"),
 "C05-A": ("BFS drops the 'ns not in queue' test (duplicates filtered at pop time)", "an edge between two states at equal BFS depth whose target lies on the returned path", "caught as built"),
 "C05-B": ("A*: best cost per state, `if best_cost and ...` treats cost 0 as unseen", "zero-cost edges out of the start and a re-generation while still queued (tie-breaking / action-order dependent)", "caught as built"),
 "C06-A": ("absorbing_state_vec uses np.isclose(self_loop, 1)", "a state whose every action self-loops with probability in (1-1e-5, 1) and zero rewards", "missed at first -> near_absorbing family (self-loop probability 1 - 2^-20 ...)"),
 "C06-B": ("reachable_states merges successors of all actions in one dict (a later 0.0 entry overwrites a positive one)", "multi-action state, explicit zero entries, successor positive under an earlier action and zero under a later one", "caught as built"),
 "C07-A": ("state_estimator_vec: np.isclose(norm, 0) instead of == 0", "an observation with probability <= 1e-8 but > 0 (rare sensor false alarm)", "missed at first -> tiny_probs family in the observation kernels"),
 "C07-B": ("BeliefMDP.reward skips absorbing states", "absorbing states that carry reward and a belief with mass on both absorbing and non-absorbing states", "caught as built"),
 "C08-A": ("PBVI convergence test without abs(): delta = (new_v - old_v).max()", "cost-only POMDP (values move down from 0)", "caught as built (point-based residual clause)"),
 "C08-B": ("QMDP rebuilds action values from state values on the raw (unmasked) matrices", "an absorbing state whose reward() is non-zero and a belief with mass on it", "caught as built"),
 "C09-A": ("POMDPPolicy.run_on: `initial_state or sample(...)`", "a falsy start state (0, (), '') passed explicitly", "missed by C09 at first (caught by C14) -> C09 now also checks run_on's first state / node"),
 "C09-B": ("gradient ascent keeps a 'best so far' snapshot with detach() but no clone(); reports the best value, returns the last controller", "non-monotone optimisation trajectory (learning rate >= 0.5)", "weakly caught at first -> learning rates {0.5,1,2} and up to 25 iterations"),
 "C10-A": ("epsilon_softmax_dist returns the plain softmax when temp != 0 (no epsilon mixture)", "ExpectedSARSA with rand_choose > 0 AND softmax_temp > 0", "caught as built (online shadow-table monitor)"),
 "C10-B": ("returned policy uses math.isclose for maximal actions", "Q-values that differ only in the 9th+ digit", "missed at first -> near-tie bandit family (equal arms, step size .9/.99)"),
 "C11-A": ("joint() hoists other.items() (a generator for non-dict kinds) out of the comprehension", "non-dict right operand and >1 element on the left", "caught as built"),
 "C11-B": ("normalize() short-circuits on is_normalized() (rtol 1e-5); condition() reuses it", "total / evidence mass within 1e-5 of 1 but not 1", "caught as built"),
 "C12-A": ("Table._take returns an unpermuted view for position lists that look like a run", "list of >=3 outer keys on a domain of size >=4 in a permuted-run order", "caught as built"),
 "C12-B": ("sets / frozensets accepted as subset selectors", "a foreign frozenset whose members are all domain elements", "caught as built"),
 "C13-A": ("gradient ascent: `seed or torch.randint(...)` (re-introduces the repaired defect)", "seed = 0", "caught as built (RNG sentinel)"),
 "C13-B": ("LRTDP _check_solved: open/closed lists become sets", "string states + comparison across processes with different PYTHONHASHSEED", "caught as built (cross-process digests)"),
 "C14-A": ("POMDPPolicy.run_on: `x or default` for start state and agent state", "falsy state / node passed explicitly", "caught as built"),
 "C14-B": ("calc_returns by reverse cumsum divided by gamma**t", "gamma**t underflows to 0.0: gamma = 0 or long roll-outs with a small discount", "missed at first -> long sequences with gamma in {0, .01, .1, .5}"),
 "C15-A": ("Option.run_on also stops at base-MDP absorbing states", "option path crosses a base-absorbing state that is not one of its terminals", "caught as built"),
 "C15-B": ("semi-MDP counts a step only if the state changed", "a simulated trajectory containing a self-transition", "caught as built"),
 "C16-A": ("converged = iterations <= max_iterations - 1 (always True)", "max_iterations smaller than the sweeps the MDP needs", "caught as built"),
 "C16-B": ("returned policy drops the gain mask (bias ties only)", "gamma = 1, multichain, transient state whose actions enter loops of different gain with tied bias", "caught as built (1-2 cases per seed)"),
 "C17-A": ("R-MAX inner value iteration silently capped at 1000 sweeps", "gamma >= .99, cost-only task, nearly closed known model", "missed at first -> gamma .99 sticky cost-only family"),
 "C17-B": ("returned policy uses np.isclose for maximal actions", "Q-values within 1e-5 relative but different (large scale / near-duplicate actions)", "missed at first -> near_dup_actions + reward_scale 1000"),
 "C18-A": ("grid game: second (unconditional) swap check removed", "adjacent agents each on the other's private goal", "caught as built (1-3 layouts per seed)"),
 "C18-B": ("dict_merge takes a shallow copy of the left operand", "tables partially overlapping inside the same nested key, left row joining >=2 right rows", "caught as built"),
 "C19-A": ("entropy weight applied after the evaluation solve", "per-state entropy weight vector with different entries", "caught as built"),
 "C19-B": ("log prior moved inside the temperature scaling", "non-uniform prior and entropy weight != 1", "caught as built"),
 "C20-A": ("GridWorld: absorbing-feature cells go through the slip step", "success_prob != 1 and an absorbing-feature cell", "caught as built (physics reference)"),
 "C20-B": ("WindyGridWorld: blocked gust collapses a dict literal with a duplicate key (mass lost)", "wind cell pointing at the edge / a wall with wind_probability != 1", "caught as built (normalisation clause)"),
}
lines = ["# Seeded changes (from independent sub-agents) and the checks that catch them", "",
         "Every change keeps the repository's own suite at 97 passed / the same 2 failed, comes with a demonstration that",
         "passes on the unchanged tree and fails with the change (confirmed in its scratch worktree, see meta.json), and",
         "was then applied to /repo itself (`git -C /repo apply`), run against the property's quick check for VERIF_SEED 0 and 1,",
         "and undone (`git -C /repo checkout -- .`).", "",
         "| id | change | needs in order to manifest | caught by (quick tier) | history |", "|---|---|---|---|---|"]
for k in sorted(D):
    m = json.load(open(f"/verif/seeded/{k}/meta.json"))
    m["change"], m["needs_to_manifest"], m["history"] = D[k]
    json.dump(m, open(f"/verif/seeded/{k}/meta.json", "w"), indent=1)
    lines.append(f"| {k} | {D[k][0]} | {D[k][1]} | {', '.join(m['caught_by'])} | {D[k][2]} |")
open("/verif/seeded/INDEX.md", "w").write("\n".join(lines) + "\n")
print(len(D), "entries")
