#!/bin/sh
# tools/confirm_seeded.sh <Cxx> <variant>  — confirm a sub-agent's seeded change in its scratch worktree:
#   demo passes on the clean tree, fails with the patch; the repository's test-suite outcome is unchanged with the patch.
id=$1; v=$2; wt=${WT_PREFIX:-/tmp/mut-}$id; d=$wt/_seeded/$v
PY="env PYTHONPATH=$wt OMP_NUM_THREADS=1 OPENBLAS_NUM_THREADS=1 MKL_NUM_THREADS=1 /venv/bin/python"
cd $wt || exit 3
git checkout -q -- . ; 
timeout 300 $PY $d/demo.py > /tmp/demo_clean_$id$v.out 2>&1; rc_clean=$?
git apply $d/patch.diff || { echo "PATCH DOES NOT APPLY"; exit 3; }
timeout 300 $PY $d/demo.py > /tmp/demo_patched_$id$v.out 2>&1; rc_patched=$?
$PY -m pytest -q -p no:cacheprovider --timeout=900 msdm/tests > /tmp/pytest_$id$v.out 2>&1
tests=$(tail -1 /tmp/pytest_$id$v.out)
failed=$(grep '^FAILED' /tmp/pytest_$id$v.out | sed 's/ - .*//; s/FAILED //' | sort | tr '\n' ' ')
git checkout -q -- .
echo "$id/$v demo_clean_rc=$rc_clean demo_patched_rc=$rc_patched tests='$tests' failed='$failed'"
echo "   clean: $(tail -1 /tmp/demo_clean_$id$v.out | cut -c1-150)"
echo "   patched: $(tail -1 /tmp/demo_patched_$id$v.out | cut -c1-200)"
