#!/bin/sh
# tools/try_wt.sh <worktree> <patch.diff> "<check ids>" [tier] [seeds] — triage a seeded change inside a scratch worktree
# (never touches /repo): apply, run the checks with VERIF_REPO=<worktree>, revert.
wt=$(realpath "$1"); patch=$(realpath "$2"); ids=$3; tier=${4:-quick}; seeds=${5:-0}
cd "$(dirname "$0")/.."
git -C "$wt" checkout -q -- . ; git -C "$wt" apply "$patch" || { echo "patch does not apply"; exit 3; }
trap 'git -C "$wt" checkout -q -- .' EXIT INT TERM
caught=0
for id in $ids; do for s in $seeds; do
  out=$(VERIF_REPO="$wt" VERIF_SEED=$s ./check $id --tier $tier 2>&1); rc=$?
  nv=$(echo "$out" | grep -c '^VIOLATION')
  echo "MUTANT $(echo $patch | sed 's#.*/mut-##; s#/_seeded##; s#/patch.diff##') check=$id tier=$tier seed=$s rc=$rc violating_cases=$nv $(echo "$out" | grep 'wall=' | sed 's/.*wall=//')"
  echo "$out" | grep -v '^    {' | grep '^    - ' | sed 's/: .*//' | sort | uniq -c | sort -rn | head -4
  [ $rc -eq 1 ] && caught=1
  [ $rc -eq 2 ] && echo "$out" | grep 'INCONCLUSIVE\|HARNESS' | head -3
done; done
exit $((1 - caught))
