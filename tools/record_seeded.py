"""Development helper: confirm each sub-agent change against /repo ITSELF (git -C /repo apply; run the
property's quick check for two seeds; git -C /repo checkout -- .) and store it under /verif/seeded/."""
import json, os, re, shutil, subprocess, sys

VERIF = "/verif"
PREFIX = os.environ.get("WT_PREFIX", "/tmp/mut-")
SUFFIX = os.environ.get("NAME_SUFFIX", "")
CONFIRM = os.environ.get("CONFIRM_PREFIX", "/tmp/confirm_")
ids = sys.argv[1:] or ["C%02d" % i for i in range(1, 21)]
extra_checks = {"C09-A": ["C14"], "C06-A9": ["C05"], "C20-B9": ["C01"]}
for pid in ids:
    for v in ("A", "B"):
        src = f"{PREFIX}{pid}/_seeded/{v}"
        if not os.path.exists(f"{src}/patch.diff"):
            continue
        name = f"{pid}-{v}{SUFFIX}"
        dst = f"{VERIF}/seeded/{name}"
        os.makedirs(dst, exist_ok=True)
        for f in os.listdir(src):
            if f.endswith((".diff", ".py", ".md")):
                shutil.copy(f"{src}/{f}", f"{dst}/{f}")
        assert subprocess.run(["git", "-C", "/repo", "status", "--porcelain"], capture_output=True, text=True).stdout.strip() == ""
        chk = subprocess.run(["git", "-C", "/repo", "apply", "--check", f"{dst}/patch.diff"], capture_output=True, text=True)
        runs = []
        if chk.returncode == 0:
            for cid in [pid] + extra_checks.get(name, []):
                p = subprocess.run([f"{VERIF}/tools/try_mutant.sh", f"{dst}/patch.diff", cid, "quick", "0 1"], capture_output=True, text=True)
                runs.append({"check": cid, "output": p.stdout.strip().splitlines(), "caught": p.returncode == 0})
        assert subprocess.run(["git", "-C", "/repo", "status", "--porcelain"], capture_output=True, text=True).stdout.strip() == ""
        confirm = ""
        lg = f"{CONFIRM}{pid}.log"
        if os.path.exists(lg):
            confirm = [l for l in open(lg).read().splitlines() if l.startswith(f"{pid}/{v} ") or l.startswith("   ")]
        notes = open(f"{dst}/notes.md").read()
        meta = {
            "id": name, "property": pid,
            "source": "independent sub-agent given only the property text and a scratch worktree (%s%s); nothing from /verif" % (PREFIX, pid),
            "summary": notes.strip().splitlines()[0:12],
            "confirmed_in_scratch_worktree": confirm,
            "applies_to_repo_head": chk.returncode == 0,
            "repo_head": subprocess.run(["git", "-C", "/repo", "rev-parse", "--short", "HEAD"], capture_output=True, text=True).stdout.strip(),
            "ran_against_repo": runs,
            "caught_by": sorted({r["check"] for r in runs if r["caught"]}),
            "procedure": "git -C /repo apply seeded/%s/patch.diff ; VERIF_SEED={0,1} ./check <id> --tier quick ; git -C /repo checkout -- ." % name,
        }
        json.dump(meta, open(f"{dst}/meta.json", "w"), indent=1)
        print(name, "applies" if chk.returncode == 0 else "DOES NOT APPLY: " + chk.stderr.strip()[:100], "caught_by", meta["caught_by"])
